/-
C27  "Algorithms never mutate their inputs":
  after any public algorithm or form operator is applied to an expression or form, the input still
  has the same repr, hash, signature, arguments, coefficients and integral metadata as before.

Shape of the argument (DESIGN.md 5, C27).  The implementation *does* write to objects that exist
before a call: memo slots and, in `expr_equals`, the operand tuple.  `Model/Writes.lean` lists these
write kinds as functions on values; this file proves that every observer named in the property is
invariant under each kind, at any position of an expression, and under any sequence of them
(`C27_sequence_observers`).  That the list of kinds is complete for the current source is the
translator tie (`Gen/Writes.lean`, theorems `C27_sites_*` in `Props/C27Sites.lean`, re-decided by the
kernel on every run); that the executed writes are instances of the kinds is the monitor correspondence
(harness/props/c27.py).
-/
import UflVerif.Model.Writes

namespace UflVerif.C27
open UflVerif.Writes

/-! ## Expressions -/

namespace Tree'
open Tree

mutual
theorem beq_eq : ∀ (a b : Tree), Tree.beq a b = true → a = b
  | .node tc p ops, .node tc' p' ops', h => by
    simp only [Tree.beq, Bool.and_eq_true, beq_iff_eq] at h
    obtain ⟨⟨h1, h2⟩, h3⟩ := h
    rw [h1, h2, beqL_eq ops ops' h3]
theorem beqL_eq : ∀ (as bs : List Tree), Tree.beqL as bs = true → as = bs
  | [], [], _ => rfl
  | a :: as, b :: bs, h => by
    simp only [Tree.beqL, Bool.and_eq_true] at h
    rw [beq_eq a b h.1, beqL_eq as bs h.2]
  | [], _ :: _, h => by simp [Tree.beqL] at h
  | _ :: _, [], h => by simp [Tree.beqL] at h
end

mutual
theorem beq_refl : ∀ (a : Tree), Tree.beq a a = true
  | .node tc p ops => by simp [Tree.beq, beqL_refl ops]
theorem beqL_refl : ∀ (as : List Tree), Tree.beqL as as = true
  | [] => rfl
  | a :: as => by simp [Tree.beqL, beq_refl a, beqL_refl as]
end

theorem beq_iff (a b : Tree) : Tree.beq a b = true ↔ a = b :=
  ⟨beq_eq a b, fun h => h ▸ beq_refl a⟩

end Tree'

open Obj

/-- the observers of an expression object: its structure (repr, str, shape, operands up to `==`, …)
    and its hash -/
def obsE (H : HashFn) (o : Obj) : Tree × Int := (o.struct, o.hashOf H)

mutual
theorem hashOf_of_memoOK (H : HashFn) : ∀ (o : Obj), o.memoOK H = true → o.hashOf H = Tree.spec H o.struct
  | .node _ tc p _ ops none, h => by
    simp only [memoOK, Bool.true_and] at h
    simp only [hashOf, struct, Tree.spec, hashOfL_of_memoOK H ops h]
  | .node _ tc p _ ops (some v), h => by
    simp only [memoOK, Bool.and_eq_true, beq_iff_eq] at h
    simp only [hashOf, struct, Tree.spec, h.1]
theorem hashOfL_of_memoOK (H : HashFn) : ∀ (os : List Obj), memoOKL H os = true → hashOfL H os = Tree.specL H (structL os)
  | [], _ => rfl
  | o :: os, h => by
    simp only [memoOKL, Bool.and_eq_true] at h
    simp only [hashOfL, structL, Tree.specL, hashOf_of_memoOK H o h.1, hashOfL_of_memoOK H os h.2]
end

mutual
theorem struct_fill (H : HashFn) : ∀ (o : Obj), (o.fill H).struct = o.struct
  | .node _ tc p _ ops none => by simp only [fill, struct, structL_fillL H ops]
  | .node _ tc p _ ops (some v) => by simp only [fill, struct]
theorem structL_fillL (H : HashFn) : ∀ (os : List Obj), structL (fillL H os) = structL os
  | [] => rfl
  | o :: os => by simp only [fillL, structL, struct_fill H o, structL_fillL H os]
end

mutual
theorem memoOK_fill (H : HashFn) : ∀ (o : Obj), o.memoOK H = true → (o.fill H).memoOK H = true
  | .node _ tc p _ ops none, h => by
    simp only [memoOK, Bool.true_and] at h
    have h1 := memoOKL_fillL H ops h
    simp only [fill, memoOK, Bool.and_eq_true, beq_iff_eq, h1, and_true]
    rw [hashOfL_of_memoOK H _ h1]
  | .node _ tc p _ ops (some v), h => by simpa only [fill] using h
theorem memoOKL_fillL (H : HashFn) : ∀ (os : List Obj), memoOKL H os = true → memoOKL H (fillL H os) = true
  | [], _ => rfl
  | o :: os, h => by
    simp only [memoOKL, Bool.and_eq_true] at h
    simp only [fillL, memoOKL, Bool.and_eq_true, memoOK_fill H o h.1, memoOKL_fillL H os h.2, and_self]
end

/-- `hash(e)` (= `compute_expr_hash`) leaves every observer of `e` unchanged and keeps the invariant -/
theorem C27_fill_observers (H : HashFn) (o : Obj) (h : o.memoOK H = true) :
    obsE H (o.fill H) = obsE H o ∧ (o.fill H).memoOK H = true := by
  have hm := memoOK_fill H o h
  refine ⟨?_, hm⟩
  simp only [obsE, struct_fill, hashOf_of_memoOK H _ hm, hashOf_of_memoOK H _ h]

/-- after `hash(e)` every `_hash` slot that `compute_expr_hash` can reach is filled: the root is -/
theorem C27_fill_fills (H : HashFn) (o : Obj) : (o.fill H).memo.isSome = true := by
  cases o with
  | node t tc p ot ops m => cases m <;> simp [fill, Obj.memo]

mutual
theorem struct_fillAll (H : HashFn) : ∀ (o : Obj), (o.fillAll H).struct = o.struct
  | .node _ tc p _ ops m => by simp only [fillAll, struct, structL_fillAllL H ops]
theorem structL_fillAllL (H : HashFn) : ∀ (os : List Obj), structL (fillAllL H os) = structL os
  | [] => rfl
  | o :: os => by simp only [fillAllL, structL, struct_fillAll H o, structL_fillAllL H os]
end

mutual
theorem memoOK_fillAll (H : HashFn) : ∀ (o : Obj), o.memoOK H = true → (o.fillAll H).memoOK H = true
  | .node _ tc p _ ops none, h => by
    simp only [memoOK, Bool.true_and] at h
    have h1 := memoOKL_fillAllL H ops h
    simp only [fillAll, memoOK, Bool.and_eq_true, beq_iff_eq, h1, and_true]
    rw [hashOfL_of_memoOK H _ h1]
  | .node _ tc p _ ops (some v), h => by
    simp only [memoOK, Bool.and_eq_true, beq_iff_eq] at h
    have h1 := memoOKL_fillAllL H ops h.2
    simp only [fillAll, memoOK, Bool.and_eq_true, beq_iff_eq, h1, and_true, structL_fillAllL]
    exact h.1
theorem memoOKL_fillAllL (H : HashFn) : ∀ (os : List Obj), memoOKL H os = true → memoOKL H (fillAllL H os) = true
  | [], _ => rfl
  | o :: os, h => by
    simp only [memoOKL, Bool.and_eq_true] at h
    simp only [fillAllL, memoOKL, Bool.and_eq_true, memoOK_fillAll H o h.1, memoOKL_fillAllL H os h.2, and_self]
end

/-- a traversal that hashes every node leaves every observer unchanged and keeps the invariant -/
theorem C27_fillAll_observers (H : HashFn) (o : Obj) (h : o.memoOK H = true) :
    obsE H (o.fillAll H) = obsE H o ∧ (o.fillAll H).memoOK H = true := by
  have hm := memoOK_fillAll H o h
  refine ⟨?_, hm⟩
  simp only [obsE, struct_fillAll, hashOf_of_memoOK H _ hm, hashOf_of_memoOK H _ h]

/-- WRITE KIND memoReset (`Expr.__init__` re-run on an existing node by `Sum(s, 0)` and the like): the slot is
    emptied, `hash` recomputes the same value -/
theorem C27_resetWrite_observers (H : HashFn) (o : Obj) (h : o.memoOK H = true) :
    obsE H o.resetWrite = obsE H o ∧ o.resetWrite.memoOK H = true := by
  cases o with
  | node t tc p ot ops m =>
    simp only [memoOK, Bool.and_eq_true] at h
    refine ⟨?_, by simp only [resetWrite, memoOK, h.2, Bool.and_self]⟩
    cases m with
    | none => rfl
    | some v =>
      simp only [beq_iff_eq] at h
      simp only [obsE, resetWrite, struct, hashOf, hashOfL_of_memoOK H ops h.2, h.1]

/-- WRITE KIND memoHash, at the node where it happens -/
theorem C27_memoWrite_observers (H : HashFn) (o : Obj) (h : o.memoOK H = true) :
    obsE H (o.memoWrite H) = obsE H o ∧ (o.memoWrite H).memoOK H = true := by
  cases o with
  | node t tc p ot ops m =>
    cases m with
    | some v => exact ⟨rfl, h⟩
    | none =>
      simp only [memoOK, Bool.true_and] at h
      simp only [obsE, memoWrite, struct, hashOf, memoOK, h, Bool.and_true, beq_iff_eq,
        hashOfL_of_memoOK H ops h, and_self]

theorem equalsTest_struct (H : HashFn) (a b : Obj) (h : equalsTest H a b = true) : a.struct = b.struct := by
  simp only [equalsTest, Bool.and_eq_true] at h
  exact Tree'.beq_eq _ _ h.2

/-- WRITE KIND operandShare, at the node where it happens: if `expr_equals(a, b)` succeeded, taking
    over `b`'s operand tuple changes no observer of `a` -/
theorem C27_shareWrite_observers (H : HashFn) (a b : Obj) (ha : a.memoOK H = true) (hb : b.memoOK H = true) :
    obsE H (shareWrite H b a) = obsE H a ∧ (shareWrite H b a).memoOK H = true := by
  unfold shareWrite
  by_cases ht : equalsTest H a b = true
  · have hs := equalsTest_struct H a b ht
    rw [if_pos ht]
    cases a with
    | node t tc p ot ops m =>
      cases b with
      | node t' tc' p' ot' ops' m' =>
        simp only [struct, Tree.node.injEq] at hs
        obtain ⟨h1, h2, h3⟩ := hs
        simp only [memoOK, Bool.and_eq_true] at ha hb
        have hl := hashOfL_of_memoOK H ops ha.2
        have hl' := hashOfL_of_memoOK H ops' hb.2
        simp only [Obj.otag, Obj.ops]
        refine ⟨?_, ?_⟩
        · cases m with
          | some v => simp only [obsE, struct, hashOf, h3]
          | none => simp only [obsE, struct, hashOf, h3, hl, hl']
        · simp only [memoOK, Bool.and_eq_true, hb.2, and_true]
          rw [← h3]; exact ha.1
  · rw [if_neg ht]; exact ⟨rfl, ha⟩

/-- a node-local write that preserves the observers of every object satisfying the invariant -/
def Harmless (H : HashFn) (w : Obj → Obj) : Prop :=
  ∀ o, o.memoOK H = true → obsE H (w o) = obsE H o ∧ (w o).memoOK H = true

mutual
theorem modifyAt_observers (H : HashFn) (w : Obj → Obj) (hw : Harmless H w) :
    ∀ (p : List Nat) (o : Obj), o.memoOK H = true →
      (modifyAt w p o).struct = o.struct ∧ (modifyAt w p o).hashOf H = o.hashOf H ∧ (modifyAt w p o).memoOK H = true
  | [], o, h => by
    have := hw o h
    simp only [obsE, Prod.mk.injEq] at this
    simpa only [modifyAt] using ⟨this.1.1, this.1.2, this.2⟩
  | i :: p, .node t tc pl ot ops m, h => by
    simp only [memoOK, Bool.and_eq_true] at h
    obtain ⟨h1, h2, h3⟩ := modifyAtL_observers H w hw i p ops h.2
    refine ⟨?_, ?_, ?_⟩
    · simp only [modifyAt, struct, h1]
    · cases m with
      | some v => simp only [modifyAt, hashOf]
      | none => simp only [modifyAt, hashOf, h2]
    · simp only [modifyAt, memoOK, Bool.and_eq_true, h1, h3, and_true]; exact h.1
theorem modifyAtL_observers (H : HashFn) (w : Obj → Obj) (hw : Harmless H w) :
    ∀ (i : Nat) (p : List Nat) (os : List Obj), memoOKL H os = true →
      structL (modifyAtL w i p os) = structL os ∧ hashOfL H (modifyAtL w i p os) = hashOfL H os ∧
      memoOKL H (modifyAtL w i p os) = true
  | _, _, [], _ => ⟨rfl, rfl, rfl⟩
  | 0, p, o :: os, h => by
    simp only [memoOKL, Bool.and_eq_true] at h
    obtain ⟨h1, h2, h3⟩ := modifyAt_observers H w hw p o h.1
    simp only [modifyAtL, structL, hashOfL, memoOKL, h1, h2, h3, h.2, and_self, Bool.and_self]
  | i + 1, p, o :: os, h => by
    simp only [memoOKL, Bool.and_eq_true] at h
    obtain ⟨h1, h2, h3⟩ := modifyAtL_observers H w hw i p os h.2
    simp only [modifyAtL, structL, hashOfL, memoOKL, h1, h2, h3, h.1, and_self, Bool.and_self]
end

/-- the two kinds of writes the implementation performs on an existing expression node, with the
    position of the node (every path to a shared node gets the same write) -/
inductive EWrite
  | memo (path : List Nat)
  | reset (path : List Nat)
  | share (path : List Nat) (other : Obj)

def EWrite.apply (H : HashFn) : EWrite → Obj → Obj
  | .memo p, o => modifyAt (memoWrite H) p o
  | .reset p, o => modifyAt resetWrite p o
  | .share p b, o => modifyAt (shareWrite H b) p o

def EWrite.ok (H : HashFn) : EWrite → Bool
  | .memo _ => true
  | .reset _ => true
  | .share _ b => b.memoOK H

/-- **expressions, any position, any write kind** -/
theorem C27_expr_write_observers (H : HashFn) (w : EWrite) (hw : w.ok H = true) (o : Obj) (h : o.memoOK H = true) :
    obsE H (w.apply H o) = obsE H o ∧ (w.apply H o).memoOK H = true := by
  cases w with
  | memo p =>
    obtain ⟨h1, h2, h3⟩ := modifyAt_observers H _ (fun o ho => C27_memoWrite_observers H o ho) p o h
    exact ⟨by simp only [obsE, EWrite.apply, h1, h2], h3⟩
  | reset p =>
    obtain ⟨h1, h2, h3⟩ := modifyAt_observers H _ (fun o ho => C27_resetWrite_observers H o ho) p o h
    exact ⟨by simp only [obsE, EWrite.apply, h1, h2], h3⟩
  | share p b =>
    obtain ⟨h1, h2, h3⟩ := modifyAt_observers H _ (fun o ho => C27_shareWrite_observers H o b ho hw) p o h
    exact ⟨by simp only [obsE, EWrite.apply, h1, h2], h3⟩

/- FULL STATEMENT (C27, expressions): for every write the implementation performs on an object that exists before
   a call, at any position, the observers of the object are unchanged.
   It is FALSE of the current code: a class whose `__new__` returns one of its arguments lets Python run
   `__init__` again on that argument when it is an instance of the class, and where `__init__` assigns the operands
   this rewrites an existing node (`reinitWrite`): `Determinant(d)` for a scalar `d = Determinant(B)` makes `d` its
   own operand, `Action(A, v)` / `Action(c, A)` with an `Argument` / `Coargument` do the same to an existing
   `Action` A (replayed by the directed cases of harness/props/c27.py).  The negation: -/
theorem C27_reinit_counterexample :
    ¬ (∀ (o : Obj) (ot : Nat) (ops : List Obj), (Obj.reinitWrite ot ops o).struct = o.struct) := by
  intro h
  have := congrArg Tree.size (h (.node 1 7 [] 1 [.node 2 1 [5] 0 [] none] none) 2 [.node 1 7 [] 1 [.node 2 1 [5] 0 [] none] none])
  revert this
  decide

/-- **expressions, all sequences of writes** (the provable restriction of the full statement; side condition:
    the writes are memo fills, memo resets and operand-tuple replacements after a successful `expr_equals` — i.e.
    no constructor is re-run with new operands on an existing node, which `EWrite` cannot express):
    repr-level structure and hash of the input are those it had before, whatever sequence of such writes
    algorithms perform on it or on any of its sub-expressions -/
theorem C27_expr_sequence_partial (H : HashFn) (ws : List EWrite) (hws : ws.all (·.ok H) = true)
    (o : Obj) (h : o.memoOK H = true) :
    obsE H (ws.foldl (fun o w => w.apply H o) o) = obsE H o ∧
    (ws.foldl (fun o w => w.apply H o) o).memoOK H = true := by
  induction ws generalizing o with
  | nil => exact ⟨rfl, h⟩
  | cons w ws ih =>
    simp only [List.all_cons, Bool.and_eq_true] at hws
    obtain ⟨h1, h2⟩ := C27_expr_write_observers H w hws.1 o h
    obtain ⟨h3, h4⟩ := ih hws.2 (w.apply H o) h2
    exact ⟨by simp only [List.foldl_cons, h3, h1], h4⟩

/-- `a == b` (`expr_equals`): no observer of either operand changes, and structurally equal operands
    compare equal -/
theorem C27_eqOp_observers (H : HashFn) (a b : Obj) (ha : a.memoOK H = true) (hb : b.memoOK H = true) :
    obsE H (eqOp H a b).2.1 = obsE H a ∧ obsE H (eqOp H a b).2.2 = obsE H b ∧
    (eqOp H a b).2.1.memoOK H = true ∧ (eqOp H a b).2.2.memoOK H = true ∧
    (a.struct = b.struct → (eqOp H a b).1 = true) := by
  obtain ⟨fa, fa'⟩ := C27_fill_observers H a ha
  obtain ⟨fb, fb'⟩ := C27_fill_observers H b hb
  obtain ⟨sa, sa'⟩ := C27_shareWrite_observers H (a.fill H) (b.fill H) fa' fb'
  have hsa : (a.fill H).struct = a.struct := struct_fill H a
  have hsb : (b.fill H).struct = b.struct := struct_fill H b
  unfold eqOp
  by_cases htc : (a.tc != b.tc) = true
  · rw [if_pos htc]
    refine ⟨rfl, rfl, ha, hb, ?_⟩
    intro hs
    exfalso
    cases a; cases b
    simp only [struct, Tree.node.injEq] at hs
    simp [Obj.tc, hs.1] at htc
  · rw [if_neg htc]
    simp only
    by_cases hh : (hashOf H (a.fill H) != hashOf H (b.fill H)) = true
    · rw [if_pos hh]
      refine ⟨fa, fb, fa', fb', ?_⟩
      intro hs
      exfalso
      rw [hashOf_of_memoOK H _ fa', hashOf_of_memoOK H _ fb', hsa, hsb, hs] at hh
      simp at hh
    · rw [if_neg hh]
      by_cases hid : (a.tag == b.tag || a.otag == b.otag) = true
      · rw [if_pos hid]; exact ⟨fa, fb, fa', fb', fun _ => rfl⟩
      · rw [if_neg hid]
        by_cases hbq : Tree.beq (a.fill H).struct (b.fill H).struct = true
        · rw [if_pos hbq]
          exact ⟨sa.trans fa, fb, sa', fb', fun _ => rfl⟩
        · rw [if_neg hbq]
          refine ⟨fa, fb, fa', fb', ?_⟩
          intro hs
          exfalso
          apply hbq
          rw [hsa, hsb, hs]
          exact Tree'.beq_refl _

theorem fill_idem (H : HashFn) (o : Obj) : (o.fill H).fill H = o.fill H := by
  cases o with
  | node t tc p ot ops m => cases m <;> simp [fill]

theorem fill_fields (H : HashFn) (o : Obj) : (o.fill H).tc = o.tc ∧ (o.fill H).tag = o.tag ∧ (o.fill H).otag = o.otag := by
  cases o with
  | node t tc p ot ops m => cases m <;> simp [fill, Obj.tc, Obj.tag, Obj.otag]

/-- the driver applies the hash phase of `==` first and the whole comparison afterwards: same outcome -/
theorem C27_eqOp_after_eqFill (H : HashFn) (a b : Obj) :
    eqOp H (eqFill H a b).1 (eqFill H a b).2 = eqOp H a b := by
  unfold eqFill
  by_cases h : (a.tc != b.tc) = true
  · rw [if_pos h]
  · rw [if_neg h]
    obtain ⟨a1, a2, a3⟩ := fill_fields H a
    obtain ⟨b1, b2, b3⟩ := fill_fields H b
    simp only [eqOp, fill_idem, a1, a2, a3, b1, b2, b3, if_neg h]

/-! ## Forms -/

open FormObj

theorem FField.mem_all (f : FField) : f ∈ FField.all := by cases f <;> simp [FField.all]

/-- the invariant `FormObj.memoOK`, as a proposition -/
structure FOK (K : Pure) (F : FormObj) : Prop where
  slots : ∀ f v, F.memo f = some v → v = K.spec F.struct f
  cpl : F.coupled = true
  ints : ∀ i ∈ F.integrals, i.integrand.memoOK K.H = true

theorem memoOK_iff (K : Pure) (F : FormObj) : F.memoOK K = true ↔ FOK K F := by
  unfold FormObj.memoOK
  simp only [Bool.and_eq_true, List.all_eq_true]
  constructor
  · rintro ⟨⟨h1, h2⟩, h3⟩
    refine ⟨?_, h2, h3⟩
    intro f v hf
    have := h1 f (FField.mem_all f)
    rw [hf] at this
    simpa using this
  · rintro ⟨h1, h2, h3⟩
    refine ⟨⟨?_, h2⟩, h3⟩
    intro f _
    cases hf : F.memo f with
    | none => rfl
    | some v => simp [h1 f v hf]

/-- `F'` is a later state of the form `F`: same structure, invariant holds, filled slots stay as they are -/
structure Ext (K : Pure) (F F' : FormObj) : Prop where
  struct_eq : F'.struct = F.struct
  ok : FOK K F'
  mono : ∀ f v, F.memo f = some v → F'.memo f = some v

theorem Ext.refl {K : Pure} {F : FormObj} (h : FOK K F) : Ext K F F := ⟨rfl, h, fun _ _ h => h⟩

theorem Ext.trans {K : Pure} {F F' F'' : FormObj} (h1 : Ext K F F') (h2 : Ext K F' F'') : Ext K F F'' :=
  ⟨h2.struct_eq.trans h1.struct_eq, h2.ok, fun f v h => h2.mono f v (h1.mono f v h)⟩

theorem struct_setMemo (F : FormObj) (f : FField) (v : Val) : (F.setMemo f v).struct = F.struct := rfl

def argLike (f : FField) : Bool :=
  match f with
  | .arguments | .coefficients | .geometricQuantities => true
  | _ => false

theorem coupled_setMemo_other (F : FormObj) (f : FField) (v : Val) (hf : argLike f = false) :
    (F.setMemo f v).coupled = F.coupled := by
  cases f <;> simp_all [argLike, FormObj.coupled, FormObj.setMemo]

theorem ext_setMemo {K : Pure} {F : FormObj} (hF : FOK K F) (f : FField) (v : Val)
    (hv : v = K.spec F.struct f) (hc : (F.setMemo f v).coupled = true) : Ext K F (F.setMemo f v) := by
  refine ⟨rfl, ⟨?_, hc, hF.ints⟩, ?_⟩
  · intro g w hg
    simp only [FormObj.setMemo] at hg
    by_cases h : g = f
    · simp only [h, ↓reduceIte, Option.some.injEq] at hg
      rw [h, ← hg, hv]; rfl
    · simp only [h, ↓reduceIte] at hg
      exact hF.slots g w hg
  · intro g w hg
    simp only [FormObj.setMemo]
    by_cases h : g = f
    · simp only [h, ↓reduceIte, Option.some.injEq]
      rw [h] at hg
      rw [hv]; exact (hF.slots f w hg).symm
    · simp only [h, ↓reduceIte]; exact hg

theorem ext_setMemo_other {K : Pure} {F : FormObj} (hF : FOK K F) (f : FField) (v : Val)
    (hv : v = K.spec F.struct f) (hf : argLike f = false) : Ext K F (F.setMemo f v) :=
  ext_setMemo hF f v hv (by rw [coupled_setMemo_other F f v hf]; exact hF.cpl)

theorem struct_fillIntegrands (K : Pure) (F : FormObj) : (fillIntegrands K F).struct = F.struct := by
  simp only [FormObj.struct, fillIntegrands, List.map_map]
  apply List.map_congr_left
  intro i _
  simp only [Function.comp, IntegralObj.struct, struct_fill]

theorem ext_fillIntegrands {K : Pure} {F : FormObj} (hF : FOK K F) : Ext K F (fillIntegrands K F) := by
  refine ⟨struct_fillIntegrands K F, ⟨?_, hF.cpl, ?_⟩, fun _ _ h => h⟩
  · intro f v hf
    rw [struct_fillIntegrands]; exact hF.slots f v hf
  · intro i hi
    simp only [fillIntegrands, List.mem_map] at hi
    obtain ⟨j, hj, rfl⟩ := hi
    exact memoOK_fill K.H _ (hF.ints j hj)

theorem struct_touchIntegrands (K : Pure) (F : FormObj) : (touchIntegrands K F).struct = F.struct := by
  simp only [FormObj.struct, touchIntegrands, List.map_map]
  apply List.map_congr_left
  intro i _
  simp only [Function.comp, IntegralObj.struct, struct_fillAll]

theorem ext_touchIntegrands {K : Pure} {F : FormObj} (hF : FOK K F) : Ext K F (touchIntegrands K F) := by
  refine ⟨struct_touchIntegrands K F, ⟨?_, hF.cpl, ?_⟩, fun _ _ h => h⟩
  · intro f v hf
    rw [struct_touchIntegrands]; exact hF.slots f v hf
  · intro i hi
    simp only [touchIntegrands, List.mem_map] at hi
    obtain ⟨j, hj, rfl⟩ := hi
    exact memoOK_fillAll K.H _ (hF.ints j hj)

/-- the joint write of `_analyze_form_arguments` -/
theorem ext_setArgs {K : Pure} {F : FormObj} (hF : FOK K F) :
    Ext K F (((F.setMemo .arguments (K.args F.struct)).setMemo .coefficients (K.coeffs F.struct)).setMemo
      .geometricQuantities (K.gq F.struct)) := by
  refine ⟨rfl, ⟨?_, ?_, hF.ints⟩, ?_⟩
  · intro g w hg
    have := hF.slots g w
    cases g <;> simp_all [FormObj.setMemo, FormObj.struct, Pure.spec]
  · simp [FormObj.coupled, FormObj.setMemo]
  · intro g w hg
    have := hF.slots g w hg
    cases g <;> simp_all [FormObj.setMemo, FormObj.struct, Pure.spec]

theorem ext_analyzeFormArguments {K : Pure} {F : FormObj} (hF : FOK K F) : Ext K F (analyzeFormArguments K F) := by
  have h1 := ext_touchIntegrands hF
  exact h1.trans (ext_setArgs h1.ok)

theorem spec_ext {K : Pure} {F F' : FormObj} (h : Ext K F F') (f : FField) :
    K.spec F'.struct f = K.spec F.struct f := by rw [h.struct_eq]

theorem accArgLike_spec {K : Pure} {F : FormObj} (hF : FOK K F) (f : FField) (hf : argLike f = true) :
    Ext K F (accArgLike K f F).2 ∧
    ((accArgLike K f F).1 = some (K.spec F.struct f) ∨
     (f = .geometricQuantities ∧ F.memo f = none ∧ (accArgLike K f F).1 = none ∧ (accArgLike K f F).2 = F)) := by
  unfold accArgLike
  cases hm : F.memo f with
  | some v => exact ⟨Ext.refl hF, Or.inl (by rw [hF.slots f v hm])⟩
  | none =>
    by_cases hg : f = .geometricQuantities
    · subst hg
      rw [if_pos rfl]
      exact ⟨Ext.refl hF, Or.inr ⟨rfl, rfl, rfl, rfl⟩⟩
    · rw [if_neg hg]
      have he := ext_analyzeFormArguments (K := K) hF
      refine ⟨he, Or.inl ?_⟩
      have hs : (touchIntegrands K F).struct = F.struct := struct_touchIntegrands K F
      cases f <;> simp_all [argLike, FormObj.read, analyzeFormArguments, FormObj.setMemo, Pure.spec, FormObj.struct]

theorem coupled_gq {F : FormObj} (hc : F.coupled = true) (f : FField) (hf : f = .arguments ∨ f = .coefficients)
    (v : Val) (hv : F.memo f = some v) : (F.memo .geometricQuantities).isSome = true := by
  rcases hf with rfl | rfl <;> simp_all [FormObj.coupled]

/-- `_analyze_domains` never takes the AttributeError path of `geometric_quantities()`: the three reads return
    the values of the structure -/
theorem analyzeDomains_ext {K : Pure} {F : FormObj} (hF : FOK K F) :
    Ext K F (analyzeDomains K F) ∧
    (analyzeDomains K F).memo .integrationDomains = some (K.spec F.struct .integrationDomains) ∧
    (analyzeDomains K F).memo .domainNumbering = some (K.spec F.struct .domainNumbering) := by
  -- step 1: write _integration_domains
  have e1 : Ext K F (F.setMemo .integrationDomains (K.idom F.struct)) :=
    ext_setMemo_other hF _ _ rfl rfl
  -- step 2..4: the three reads
  obtain ⟨e2, v2⟩ := accArgLike_spec e1.ok .arguments rfl
  obtain ⟨e3, v3⟩ := accArgLike_spec e2.ok .coefficients rfl
  obtain ⟨e4, v4⟩ := accArgLike_spec e3.ok .geometricQuantities rfl
  have a2 : (accArgLike K .arguments (F.setMemo .integrationDomains (K.idom F.struct))).1 = some (K.args F.struct) := by
    rcases v2 with h | ⟨h, _⟩
    · rw [h]; rfl
    · cases h
  generalize hF1 : F.setMemo .integrationDomains (K.idom F.struct) = F1 at *
  generalize hr2 : accArgLike K .arguments F1 = r2 at *
  obtain ⟨a, F2⟩ := r2
  have a3 : (accArgLike K .coefficients F2).1 = some (K.coeffs F.struct) := by
    rcases v3 with h | ⟨h, _⟩
    · rw [h, e2.struct_eq, e1.struct_eq]; rfl
    · cases h
  generalize hr3 : accArgLike K .coefficients F2 = r3 at *
  obtain ⟨c, F3⟩ := r3
  -- after the first two reads `_arguments` is filled, hence (coupling) `_geometric_quantities` is
  have hargs : ∃ w, F3.memo .arguments = some w := by
    have : ∃ w, F2.memo .arguments = some w := by
      simp only at a2
      cases hm : F1.memo .arguments with
      | some w =>
        have : F2 = F1 := by
          have := congrArg Prod.snd hr2
          simp only [accArgLike, hm] at this
          exact this.symm
        exact ⟨w, by rw [this]; exact hm⟩
      | none =>
        have : F2 = analyzeFormArguments K F1 := by
          have := congrArg Prod.snd hr2
          simp only [accArgLike, hm] at this
          simpa using this.symm
        exact ⟨K.args (touchIntegrands K F1).struct, by rw [this]; simp [analyzeFormArguments, FormObj.setMemo]⟩
    obtain ⟨w, hw⟩ := this
    exact ⟨w, e3.mono _ _ hw⟩
  obtain ⟨w, hw⟩ := hargs
  have hgq := coupled_gq e3.ok.cpl .arguments (Or.inl rfl) w hw
  have a4 : (accArgLike K .geometricQuantities F3).1 = some (K.gq F.struct) := by
    rcases v4 with h | ⟨_, h, _⟩
    · rw [h, e3.struct_eq, e2.struct_eq, e1.struct_eq]; rfl
    · rw [h] at hgq; cases hgq
  generalize hr4 : accArgLike K .geometricQuantities F3 = r4 at *
  obtain ⟨g, F4⟩ := r4
  simp only at a2 a3 a4 e2 e3 e4
  have e14 : Ext K F F4 := e1.trans (e2.trans (e3.trans e4))
  have hs4 : F4.struct = F.struct := e14.struct_eq
  have e5 : Ext K F4 (F4.setMemo .domainNumbering (K.dnum F4.struct (K.args F.struct) (K.coeffs F.struct) (K.gq F.struct))) :=
    ext_setMemo_other e14.ok _ _ (by rw [hs4]; rfl) rfl
  have hres : analyzeDomains K F =
      F4.setMemo .domainNumbering (K.dnum F4.struct (K.args F.struct) (K.coeffs F.struct) (K.gq F.struct)) := by
    simp only [analyzeDomains, hF1, hr2, hr3, hr4, a2, a3, a4, Option.getD_some]
  rw [hres]
  refine ⟨e14.trans e5, ?_, ?_⟩
  · have h1 : F1.memo .integrationDomains = some (K.idom F.struct) := by
      rw [← hF1]; simp [FormObj.setMemo]
    have := (e2.trans (e3.trans e4)).mono _ _ h1
    simp only [FormObj.setMemo]
    simpa [Pure.spec] using this
  · simp [FormObj.setMemo, Pure.spec, hs4]

theorem accDomainLike_spec {K : Pure} {F : FormObj} (hF : FOK K F) (f : FField)
    (hf : f = .integrationDomains ∨ f = .domainNumbering) :
    Ext K F (accDomainLike K f F).2 ∧ (accDomainLike K f F).1 = K.spec F.struct f := by
  unfold accDomainLike
  cases hm : F.memo f with
  | some v => exact ⟨Ext.refl hF, hF.slots f v hm⟩
  | none =>
    obtain ⟨e, h1, h2⟩ := analyzeDomains_ext (K := K) hF
    refine ⟨e, ?_⟩
    rcases hf with rfl | rfl
    · simp only [FormObj.read, h1, Option.getD_some]
    · simp only [FormObj.read, h2, Option.getD_some]

theorem accSubdomainData_spec {K : Pure} {F : FormObj} (hF : FOK K F) :
    Ext K F (accSubdomainData K F).2 ∧ (accSubdomainData K F).1 = K.spec F.struct .subdomainData := by
  unfold accSubdomainData
  cases hm : F.memo .subdomainData with
  | some v => exact ⟨Ext.refl hF, hF.slots _ v hm⟩
  | none =>
    obtain ⟨e, hv⟩ := accDomainLike_spec (K := K) hF .integrationDomains (Or.inl rfl)
    generalize accDomainLike K .integrationDomains F = r at *
    obtain ⟨d, F1⟩ := r
    simp only at e hv ⊢
    have e2 : Ext K F1 (F1.setMemo .subdomainData (K.sdata F1.struct d)) :=
      ext_setMemo_other e.ok _ _ (by rw [hv, e.struct_eq]; rfl) rfl
    exact ⟨e.trans e2, by rw [hv, e.struct_eq]; rfl⟩

theorem accTerminalNumbering_spec {K : Pure} {F : FormObj} (hF : FOK K F) :
    Ext K F (accTerminalNumbering K F).2 ∧ (accTerminalNumbering K F).1 = K.spec F.struct .terminalNumbering := by
  unfold accTerminalNumbering
  cases hm : F.memo .terminalNumbering with
  | some v => exact ⟨Ext.refl hF, hF.slots _ v hm⟩
  | none =>
    have e := ext_touchIntegrands (K := K) hF
    have e2 : Ext K (touchIntegrands K F) ((touchIntegrands K F).setMemo .terminalNumbering (K.tn (touchIntegrands K F).struct)) :=
      ext_setMemo_other e.ok _ _ rfl rfl
    exact ⟨e.trans e2, by simp only [e.struct_eq]; rfl⟩

theorem accFiltered_spec {K : Pure} {F : FormObj} (hF : FOK K F) (f : FField) (filt : Val → Val)
    (hf : (f = .coefficientNumbering ∧ filt = K.filtC) ∨ (f = .constantNumbering ∧ filt = K.filtK)) :
    Ext K F (accFiltered K f filt F).2 ∧ (accFiltered K f filt F).1 = K.spec F.struct f := by
  unfold accFiltered
  cases hm : F.memo f with
  | some v => exact ⟨Ext.refl hF, hF.slots _ v hm⟩
  | none =>
    obtain ⟨e, hv⟩ := accTerminalNumbering_spec (K := K) hF
    generalize accTerminalNumbering K F = r at *
    obtain ⟨t, F1⟩ := r
    simp only at e hv ⊢
    have hval : filt t = K.spec F1.struct f := by
      rw [hv, e.struct_eq]
      rcases hf with ⟨rfl, rfl⟩ | ⟨rfl, rfl⟩ <;> rfl
    have hal : argLike f = false := by rcases hf with ⟨rfl, _⟩ | ⟨rfl, _⟩ <;> rfl
    have e2 : Ext K F1 (F1.setMemo f (filt t)) := ext_setMemo_other e.ok _ _ hval hal
    exact ⟨e.trans e2, by rw [hval, e.struct_eq]⟩

theorem accBaseFormOperators_spec {K : Pure} {F : FormObj} (hF : FOK K F) :
    Ext K F (accBaseFormOperators K F).2 ∧ (accBaseFormOperators K F).1 = K.spec F.struct .baseFormOperators := by
  unfold accBaseFormOperators
  cases hm : F.memo .baseFormOperators with
  | some v => exact ⟨Ext.refl hF, hF.slots _ v hm⟩
  | none =>
    have e := ext_touchIntegrands (K := K) hF
    have e2 : Ext K (touchIntegrands K F) ((touchIntegrands K F).setMemo .baseFormOperators (K.bfo (touchIntegrands K F).struct)) :=
      ext_setMemo_other e.ok _ _ rfl rfl
    exact ⟨e.trans e2, by simp only [e.struct_eq]; rfl⟩

/-- the hash of an integral as the implementation computes it (from `hash(integrand)`) is the hash of its
    structure -/
theorem ihashO_eq (K : Pure) (i : IntegralObj) (h : i.integrand.memoOK K.H = true) :
    ihashO K i = K.ihashT i.struct := by
  simp only [ihashO, Pure.ihashT, IntegralObj.struct, hashOf_of_memoOK K.H _ h]

theorem map_ihashO {K : Pure} {F : FormObj} (hF : FOK K F) :
    F.integrals.map (ihashO K) = F.struct.map K.ihashT := by
  simp only [FormObj.struct, List.map_map]
  apply List.map_congr_left
  intro i hi
  exact ihashO_eq K i (hF.ints i hi)

theorem accHash_spec {K : Pure} {F : FormObj} (hF : FOK K F) :
    Ext K F (accHash K F).2 ∧ (accHash K F).1 = K.spec F.struct .hash := by
  unfold accHash
  cases hm : F.memo .hash with
  | some v => exact ⟨Ext.refl hF, hF.slots _ v hm⟩
  | none =>
    have e := ext_fillIntegrands (K := K) hF
    have hv : K.fhash ((fillIntegrands K F).integrals.map (ihashO K)) = K.spec (fillIntegrands K F).struct .hash := by
      rw [map_ihashO e.ok]; rfl
    have e2 := ext_setMemo_other e.ok .hash _ hv rfl
    exact ⟨e.trans e2, by simp only [hv, e.struct_eq]⟩

theorem accSignature_spec {K : Pure} {F : FormObj} (hF : FOK K F) :
    Ext K F (accSignature K F).2 ∧ (accSignature K F).1 = K.spec F.struct .signature := by
  unfold accSignature
  cases hm : F.memo .signature with
  | some v => exact ⟨Ext.refl hF, hF.slots _ v hm⟩
  | none =>
    obtain ⟨e1, v1⟩ := accDomainLike_spec (K := K) hF .domainNumbering (Or.inr rfl)
    generalize accDomainLike K .domainNumbering F = r1 at *
    obtain ⟨dn, F1⟩ := r1
    simp only at e1 v1 ⊢
    obtain ⟨e2, v2⟩ := accTerminalNumbering_spec (K := K) e1.ok
    generalize accTerminalNumbering K F1 = r2 at *
    obtain ⟨tn, F2⟩ := r2
    simp only at e2 v2 ⊢
    have e3 := ext_touchIntegrands (K := K) e2.ok
    have e13 : Ext K F (touchIntegrands K F2) := e1.trans (e2.trans e3)
    have hv : K.sig (touchIntegrands K F2).struct dn tn = K.spec (touchIntegrands K F2).struct .signature := by
      rw [v1, v2, e13.struct_eq, e1.struct_eq]; rfl
    have e4 := ext_setMemo_other e13.ok .signature _ hv rfl
    exact ⟨e13.trans e4, by rw [hv, e13.struct_eq]⟩

/-- **every accessor of a form is observationally pure**: the state after the call is a later state of the same
    form (same structure — hence same repr, integrals, integrands, metadata —, invariant kept, filled slots
    untouched), and the value returned is the value of the structure.  The only accessor that can fail is
    `geometric_quantities()` on a form whose arguments were never analysed (the slot is not initialised by
    `Form.__init__`); then nothing is written. -/
theorem C27_form_acc_observers (K : Pure) (F : FormObj) (hF : F.memoOK K = true) (f : FField) :
    Ext K F (acc K f F).2 ∧
    ((acc K f F).1 = some (K.spec F.struct f) ∨
     (f = .geometricQuantities ∧ F.memo f = none ∧ (acc K f F).1 = none ∧ (acc K f F).2 = F)) := by
  have hF := (memoOK_iff K F).1 hF
  cases f
  case arguments => exact accArgLike_spec hF _ rfl
  case coefficients => exact accArgLike_spec hF _ rfl
  case geometricQuantities => exact accArgLike_spec hF _ rfl
  case integrationDomains =>
    obtain ⟨e, v⟩ := accDomainLike_spec (K := K) hF .integrationDomains (Or.inl rfl)
    exact ⟨e, Or.inl (by simp only [acc, v])⟩
  case domainNumbering =>
    obtain ⟨e, v⟩ := accDomainLike_spec (K := K) hF .domainNumbering (Or.inr rfl)
    exact ⟨e, Or.inl (by simp only [acc, v])⟩
  case subdomainData =>
    obtain ⟨e, v⟩ := accSubdomainData_spec (K := K) hF
    exact ⟨e, Or.inl (by simp only [acc, v])⟩
  case coefficientNumbering =>
    obtain ⟨e, v⟩ := accFiltered_spec (K := K) hF .coefficientNumbering K.filtC (Or.inl ⟨rfl, rfl⟩)
    exact ⟨e, Or.inl (by simp only [acc, v])⟩
  case constantNumbering =>
    obtain ⟨e, v⟩ := accFiltered_spec (K := K) hF .constantNumbering K.filtK (Or.inr ⟨rfl, rfl⟩)
    exact ⟨e, Or.inl (by simp only [acc, v])⟩
  case terminalNumbering =>
    obtain ⟨e, v⟩ := accTerminalNumbering_spec (K := K) hF
    exact ⟨e, Or.inl (by simp only [acc, v])⟩
  case baseFormOperators =>
    obtain ⟨e, v⟩ := accBaseFormOperators_spec (K := K) hF
    exact ⟨e, Or.inl (by simp only [acc, v])⟩
  case hash =>
    obtain ⟨e, v⟩ := accHash_spec (K := K) hF
    exact ⟨e, Or.inl (by simp only [acc, v])⟩
  case signature =>
    obtain ⟨e, v⟩ := accSignature_spec (K := K) hF
    exact ⟨e, Or.inl (by simp only [acc, v])⟩

/-- what a caller can observe of a form: its structure (repr, integrals, integrands, integral metadata) and
    the value every accessor returns (`none` = raises) -/
def obsF (K : Pure) (F : FormObj) : FormT × (FField → Option Val) := (F.struct, fun f => (acc K f F).1)

/-- observers never change along `Ext`: same structure, and a value once returned by an accessor is the value
    it returns in every later state -/
theorem obsF_mono {K : Pure} {F F' : FormObj} (hF : FOK K F) (h : Ext K F F') :
    (obsF K F').1 = (obsF K F).1 ∧ ∀ f v, (obsF K F).2 f = some v → (obsF K F').2 f = some v := by
  refine ⟨h.struct_eq, ?_⟩
  intro f v hv
  simp only [obsF] at hv ⊢
  obtain ⟨_, r⟩ := C27_form_acc_observers K F ((memoOK_iff K F).2 hF) f
  obtain ⟨_, r'⟩ := C27_form_acc_observers K F' ((memoOK_iff K F').2 h.ok) f
  rcases r with r | ⟨_, _, r, _⟩
  · rw [r] at hv
    rcases r' with r' | ⟨hf, hn, _, _⟩
    · rw [r', h.struct_eq]; exact hv
    · -- in F' the slot is empty, so it was empty in F; then `f` = geometric_quantities raised in F too
      exfalso
      subst hf
      have : F.memo .geometricQuantities = none := by
        cases hm : F.memo .geometricQuantities with
        | none => rfl
        | some w => rw [h.mono _ _ hm] at hn; cases hn
      simp only [acc, accArgLike, this, ↓reduceIte] at r
      cases r
  · rw [r] at hv; cases hv

/-- WRITE KIND memoForm: filling a slot outside its accessor (any slot, any time) -/
theorem ext_memoWrite {K : Pure} {F : FormObj} (hF : FOK K F) (f : FField) : Ext K F (FormObj.memoWrite K f F) := by
  unfold FormObj.memoWrite
  cases hm : F.memo f with
  | some v => exact Ext.refl hF
  | none =>
    cases f
    case arguments => exact ext_setArgs hF
    case coefficients => exact ext_setArgs hF
    case geometricQuantities => exact ext_setArgs hF
    all_goals exact ext_setMemo_other hF _ _ rfl rfl

theorem C27_form_memoWrite_observers (K : Pure) (F : FormObj) (hF : F.memoOK K = true) (f : FField) :
    Ext K F (FormObj.memoWrite K f F) := ext_memoWrite ((memoOK_iff K F).1 hF) f

theorem map_modify_eq {α β : Type} (f : α → β) (g : α → α) :
    ∀ (l : List α) (k : Nat), (∀ a ∈ l, f (g a) = f a) → (l.modify k g).map f = l.map f
  | [], _, _ => by simp
  | a :: l, 0, h => by simp [h a (by simp)]
  | a :: l, k + 1, h => by
    simp only [List.modify_succ_cons, List.map_cons, List.cons.injEq, true_and]
    exact map_modify_eq f g l k (fun b hb => h b (by simp [hb]))

theorem forall_modify {α : Type} (P : α → Prop) (g : α → α) :
    ∀ (l : List α) (k : Nat), (∀ a ∈ l, P a) → (∀ a ∈ l, P a → P (g a)) → ∀ a ∈ l.modify k g, P a
  | [], _, _, _ => by simp
  | a :: l, 0, h, hg => by
    intro b hb
    simp only [List.modify_zero_cons, List.mem_cons] at hb
    rcases hb with rfl | hb
    · exact hg a (by simp) (h a (by simp))
    · exact h b (by simp [hb])
  | a :: l, k + 1, h, hg => by
    intro b hb
    simp only [List.modify_succ_cons, List.mem_cons] at hb
    rcases hb with rfl | hb
    · exact h _ (by simp)
    · exact forall_modify P g l k (fun c hc => h c (by simp [hc])) (fun c hc => hg c (by simp [hc])) b hb

/-- an expression-level write (memo fill or operand-tuple replacement at any position) applied to an integrand
    of a form changes no observer of the form -/
theorem ext_onIntegrand {K : Pure} {F : FormObj} (hF : FOK K F) (k : Nat) (w : Obj → Obj) (hw : Harmless K.H w) :
    Ext K F (onIntegrand k w F) := by
  have hs : (onIntegrand k w F).struct = F.struct := by
    simp only [FormObj.struct, onIntegrand]
    apply map_modify_eq
    intro i hi
    have := (hw i.integrand (hF.ints i hi)).1
    simp only [obsE, Prod.mk.injEq] at this
    simp only [IntegralObj.struct, this.1]
  refine ⟨hs, ⟨?_, hF.cpl, ?_⟩, fun _ _ h => h⟩
  · intro f v hf; rw [hs]; exact hF.slots f v hf
  · simp only [onIntegrand]
    apply forall_modify (fun i : IntegralObj => i.integrand.memoOK K.H = true)
    · exact hF.ints
    · intro i _ hi; exact (hw i.integrand hi).2

theorem harmless_ewrite (H : HashFn) (w : EWrite) (hw : w.ok H = true) : Harmless H (w.apply H) :=
  fun o ho => C27_expr_write_observers H w hw o ho

theorem harmless_fill (H : HashFn) : Harmless H (Obj.fill H) := fun o ho => C27_fill_observers H o ho

theorem harmless_fillAll (H : HashFn) : Harmless H (Obj.fillAll H) := fun o ho => C27_fillAll_observers H o ho

/-- the loop of `Form.equals` over the integrals: both lists keep their structure and the invariant -/
theorem eqIntegrals_ext (K : Pure) : ∀ (as bs : List IntegralObj),
    (∀ i ∈ as, i.integrand.memoOK K.H = true) → (∀ i ∈ bs, i.integrand.memoOK K.H = true) →
    (eqIntegrals K as bs).2.1.map IntegralObj.struct = as.map IntegralObj.struct ∧
    (eqIntegrals K as bs).2.2.map IntegralObj.struct = bs.map IntegralObj.struct ∧
    (∀ i ∈ (eqIntegrals K as bs).2.1, i.integrand.memoOK K.H = true) ∧
    (∀ i ∈ (eqIntegrals K as bs).2.2, i.integrand.memoOK K.H = true)
  | [], bs, ha, hb => by
    rw [show eqIntegrals K [] bs = (true, [], bs) by simp [eqIntegrals]]; exact ⟨rfl, rfl, ha, hb⟩
  | a :: as, [], ha, hb => by
    rw [show eqIntegrals K (a :: as) [] = (true, a :: as, []) by simp [eqIntegrals]]; exact ⟨rfl, rfl, ha, hb⟩
  | a :: as, b :: bs, ha, hb => by
    have hma := ha a (by simp)
    have hmb := hb b (by simp)
    obtain ⟨o1, o2, o3, o4, _⟩ := C27_eqOp_observers K.H a.integrand b.integrand hma hmb
    simp only [obsE, Prod.mk.injEq] at o1 o2
    have sa : IntegralObj.struct { a with integrand := (eqOp K.H a.integrand b.integrand).2.1 } = a.struct := by
      simp only [IntegralObj.struct, o1.1]
    have sb : IntegralObj.struct { b with integrand := (eqOp K.H a.integrand b.integrand).2.2 } = b.struct := by
      simp only [IntegralObj.struct, o2.1]
    have ha' : ∀ i ∈ as, i.integrand.memoOK K.H = true := fun i hi => ha i (by simp [hi])
    have hb' : ∀ i ∈ bs, i.integrand.memoOK K.H = true := fun i hi => hb i (by simp [hi])
    obtain ⟨r1, r2, r3, r4⟩ := eqIntegrals_ext K as bs ha' hb'
    unfold eqIntegrals
    by_cases hp : (a.pre != b.pre) = true
    · rw [if_pos hp]; exact ⟨rfl, rfl, ha, hb⟩
    · rw [if_neg hp]
      simp only
      by_cases hq : (!(eqOp K.H a.integrand b.integrand).1 || a.md != b.md || a.post != b.post) = true
      · rw [if_pos hq]
        refine ⟨by simp only [List.map_cons, sa], by simp only [List.map_cons, sb], ?_, ?_⟩
        · intro i hi
          simp only [List.mem_cons] at hi
          rcases hi with rfl | hi
          · exact o3
          · exact ha' i hi
        · intro i hi
          simp only [List.mem_cons] at hi
          rcases hi with rfl | hi
          · exact o4
          · exact hb' i hi
      · rw [if_neg hq]
        refine ⟨by simp only [List.map_cons, sa, r1], by simp only [List.map_cons, sb, r2], ?_, ?_⟩
        · intro i hi
          simp only [List.mem_cons] at hi
          rcases hi with rfl | hi
          · exact o3
          · exact r3 i hi
        · intro i hi
          simp only [List.mem_cons] at hi
          rcases hi with rfl | hi
          · exact o4
          · exact r4 i hi

theorem ext_withIntegrals {K : Pure} {F : FormObj} (hF : FOK K F) (is : List IntegralObj)
    (hs : is.map IntegralObj.struct = F.integrals.map IntegralObj.struct)
    (hm : ∀ i ∈ is, i.integrand.memoOK K.H = true) : Ext K F { F with integrals := is } := by
  have h : ({ F with integrals := is } : FormObj).struct = F.struct := hs
  exact ⟨h, ⟨fun f v hf => by rw [h]; exact hF.slots f v hf, hF.cpl, hm⟩, fun _ _ h => h⟩

/-- `F.equals(G)` (`bool(F == G)`, `F != G`): neither form changes for an observer -/
theorem ext_equals {K : Pure} {F G : FormObj} (hF : FOK K F) (hG : FOK K G) :
    Ext K F (equals K F G).2.1 ∧ Ext K G (equals K F G).2.2 := by
  unfold equals
  by_cases hl : (F.integrals.length != G.integrals.length) = true
  · rw [if_pos hl]; exact ⟨Ext.refl hF, Ext.refl hG⟩
  · rw [if_neg hl]
    obtain ⟨eF, _⟩ := accHash_spec (K := K) hF
    obtain ⟨eG, _⟩ := accHash_spec (K := K) hG
    generalize accHash K F = rF at *
    generalize accHash K G = rG at *
    obtain ⟨hvF, F1⟩ := rF
    obtain ⟨hvG, G1⟩ := rG
    simp only at eF eG ⊢
    by_cases hh : (hvF != hvG) = true
    · rw [if_pos hh]; exact ⟨eF, eG⟩
    · rw [if_neg hh]
      obtain ⟨r1, r2, r3, r4⟩ := eqIntegrals_ext K F1.integrals G1.integrals eF.ok.ints eG.ok.ints
      generalize eqIntegrals K F1.integrals G1.integrals = r at *
      obtain ⟨b, is, js⟩ := r
      simp only at r1 r2 r3 r4 ⊢
      exact ⟨eF.trans (ext_withIntegrals eF.ok is r1 r3), eG.trans (ext_withIntegrals eG.ok js r2 r4)⟩

/-- everything that can happen to an existing form: an accessor call, a memo fill, an expression-level write at
    any position of any integrand, a comparison with another form (on either side) -/
inductive FOp
  | acc (f : FField)
  | memo (f : FField)
  | hashIntegrand (k : Nat)
  | traverseIntegrand (k : Nat)
  | integrand (k : Nat) (w : EWrite)
  | equalsSelf (G : FormObj)
  | equalsOther (G : FormObj)

def FOp.ok (K : Pure) : FOp → Bool
  | .integrand _ w => w.ok K.H
  | .equalsSelf G | .equalsOther G => G.memoOK K
  | _ => true

def FOp.apply (K : Pure) : FOp → FormObj → FormObj
  | .acc f, F => (FormObj.acc K f F).2
  | .memo f, F => FormObj.memoWrite K f F
  | .hashIntegrand k, F => onIntegrand k (Obj.fill K.H) F
  | .traverseIntegrand k, F => onIntegrand k (Obj.fillAll K.H) F
  | .integrand k w, F => onIntegrand k (w.apply K.H) F
  | .equalsSelf G, F => (equals K F G).2.1
  | .equalsOther G, F => (equals K G F).2.2

theorem ext_op {K : Pure} {F : FormObj} (hF : FOK K F) (op : FOp) (hop : op.ok K = true) : Ext K F (op.apply K F) := by
  cases op with
  | acc f => exact (C27_form_acc_observers K F ((memoOK_iff K F).2 hF) f).1
  | memo f => exact ext_memoWrite hF f
  | hashIntegrand k => exact ext_onIntegrand hF k _ (harmless_fill K.H)
  | traverseIntegrand k => exact ext_onIntegrand hF k _ (harmless_fillAll K.H)
  | integrand k w => exact ext_onIntegrand hF k _ (harmless_ewrite K.H w hop)
  | equalsSelf G => exact (ext_equals hF ((memoOK_iff K G).1 hop)).1
  | equalsOther G => exact (ext_equals ((memoOK_iff K G).1 hop) hF).2

theorem ext_ops {K : Pure} (ops : List FOp) (hops : ops.all (·.ok K) = true) {F : FormObj} (hF : FOK K F) :
    Ext K F (ops.foldl (fun F op => op.apply K F) F) := by
  induction ops generalizing F with
  | nil => exact Ext.refl hF
  | cons op ops ih =>
    simp only [List.all_cons, Bool.and_eq_true] at hops
    have e := ext_op hF op hops.1
    exact e.trans (ih hops.2 e.ok)

/-- **forms, all sequences** (with the same side condition as `C27_expr_sequence_partial` for the writes inside
    integrands; `Form` itself has no `__new__`, so a form is never re-initialised): after any sequence of accessor calls, memo fills, expression-level writes inside
    integrands and comparisons, the form has the structure it had (so the same repr, integrals, integrands and
    integral metadata), every accessor that returned a value returns that value, and the invariant still holds -/
theorem C27_form_sequence_observers (K : Pure) (F : FormObj) (hF : F.memoOK K = true)
    (ops : List FOp) (hops : ops.all (·.ok K) = true) :
    let F' := ops.foldl (fun F op => op.apply K F) F
    (obsF K F').1 = (obsF K F).1 ∧ (∀ f v, (obsF K F).2 f = some v → (obsF K F').2 f = some v) ∧
    F'.memoOK K = true := by
  have h := (memoOK_iff K F).1 hF
  have e := ext_ops ops hops h
  obtain ⟨h1, h2⟩ := obsF_mono h e
  exact ⟨h1, h2, (memoOK_iff K _).2 e.ok⟩

/-- the observers the property names, as equalities: repr-level structure, integral metadata, hash, signature,
    arguments and coefficients of the form after any sequence of operations are those before it -/
theorem C27_named_observers (K : Pure) (F : FormObj) (hF : F.memoOK K = true)
    (ops : List FOp) (hops : ops.all (·.ok K) = true) :
    let F' := ops.foldl (fun F op => op.apply K F) F
    F'.struct = F.struct ∧
    F'.integrals.map (·.md) = F.integrals.map (·.md) ∧
    (acc K .hash F').1 = (acc K .hash F).1 ∧ (acc K .signature F').1 = (acc K .signature F).1 ∧
    (acc K .arguments F').1 = (acc K .arguments F).1 ∧ (acc K .coefficients F').1 = (acc K .coefficients F).1 := by
  intro F'
  have h := (memoOK_iff K F).1 hF
  have e : Ext K F F' := ext_ops ops hops h
  have hF' := (memoOK_iff K F').2 e.ok
  have val : ∀ f, f ≠ FField.geometricQuantities → (acc K f F').1 = (acc K f F).1 := by
    intro f hf
    obtain ⟨_, r⟩ := C27_form_acc_observers K F hF f
    obtain ⟨_, r'⟩ := C27_form_acc_observers K F' hF' f
    rcases r with r | ⟨c, _⟩
    · rcases r' with r' | ⟨c, _⟩
      · rw [r, r', e.struct_eq]
      · exact absurd c hf
    · exact absurd c hf
  refine ⟨e.struct_eq, ?_, val _ (by decide), val _ (by decide), val _ (by decide), val _ (by decide)⟩
  have hmd : ∀ l : List IntegralObj, (l.map IntegralObj.struct).map (·.md) = l.map (·.md) := by
    intro l; induction l <;> simp_all [IntegralObj.struct]
  have := congrArg (List.map (·.md)) e.struct_eq
  simp only [FormObj.struct, hmd] at this
  exact this

/-! ## Integral metadata: the passes write into a new dictionary -/

/-- `σ'` extends `σ`: every dictionary that exists in `σ` is unchanged in `σ'` -/
def Pres (σ σ' : Store) : Prop := σ.length ≤ σ'.length ∧ ∀ a, a < σ.length → Store.get σ' a = Store.get σ a

theorem Pres.refl (σ : Store) : Pres σ σ := ⟨Nat.le_refl _, fun _ _ => rfl⟩

theorem Pres.trans {σ σ' σ'' : Store} (h1 : Pres σ σ') (h2 : Pres σ' σ'') : Pres σ σ'' :=
  ⟨Nat.le_trans h1.1 h2.1, fun a ha => by rw [h2.2 a (Nat.lt_of_lt_of_le ha h1.1), h1.2 a ha]⟩

theorem pres_alloc (σ : Store) (d : Dict) : Pres σ (Store.alloc σ d).2 := by
  refine ⟨by simp [Store.alloc], ?_⟩
  intro a ha
  simp [Store.get, Store.alloc, List.getD_eq_getElem?_getD, List.getElem?_append_left ha]

theorem get_alloc_new (σ : Store) (d : Dict) : Store.get (Store.alloc σ d).2 σ.length = d := by
  simp [Store.get, Store.alloc, List.getD_eq_getElem?_getD]

theorem get_modify_other (σ : Store) (g : Dict → Dict) (a b : Nat) (h : a ≠ b) :
    Store.get (List.modify σ b g) a = Store.get σ a := by
  simp [Store.get, List.getD_eq_getElem?_getD, Ne.symm h]

theorem get_modify_self (σ : Store) (g : Dict → Dict) (b : Nat) (h : b < σ.length) :
    Store.get (List.modify σ b g) b = g (Store.get σ b) := by
  simp [Store.get, List.getD_eq_getElem?_getD, h]

/-- a write into a dictionary allocated after `σ0` preserves `σ0` -/
theorem pres_modify_new {σ0 σ : Store} (h : Pres σ0 σ) (b : Nat) (g : Dict → Dict) (hb : σ0.length ≤ b) :
    Pres σ0 (List.modify σ b g) := by
  refine ⟨by simpa using h.1, ?_⟩
  intro a ha
  rw [get_modify_other _ _ _ _ (by omega), h.2 a ha]

/-- one integral of `attach_estimated_degrees`: the dictionary of the new integral is a new one (its address is
    beyond the old store), it holds the old entries plus the estimate, and every dictionary that existed is
    what it was -/
theorem attachOne_spec (deg : Int → Int) (i : IntegralM) (σ : Store) :
    (attachOne deg i σ).1.md = σ.length ∧ (attachOne deg i σ).2.length = σ.length + 1 ∧
    Pres σ (attachOne deg i σ).2 ∧
    (i.md < σ.length → Store.get (attachOne deg i σ).2 σ.length =
        Dict.set (Dict.update [] (Store.get σ i.md)) kEst (deg i.integrand)) := by
  refine ⟨rfl, by simp [attachOne, Store.alloc, Store.setItem, Store.updateFrom], ?_, ?_⟩
  · simp only [attachOne, Store.setItem, Store.updateFrom]
    exact pres_modify_new (pres_modify_new (pres_alloc σ []) _ _ (Nat.le_refl _)) _ _ (Nat.le_refl _)
  · intro hi
    simp only [attachOne, Store.setItem, Store.updateFrom, Store.alloc]
    rw [get_modify_self _ _ _ (by simp), get_modify_self _ _ _ (by simp)]
    have h1 := get_alloc_new σ []
    have h2 := (pres_alloc σ []).2 i.md hi
    simp only [Store.alloc] at h1 h2
    rw [h1, h2]

theorem attachDegrees_spec (deg : Int → Int) : ∀ (is : List IntegralM) (σ : Store),
    Pres σ (attachDegrees deg is σ).2 ∧
    (∀ j ∈ (attachDegrees deg is σ).1, σ.length ≤ j.md) ∧
    (attachDegrees deg is σ).1.map (·.integrand) = is.map (·.integrand)
  | [], σ => by simp [attachDegrees, Pres.refl]
  | i :: is, σ => by
    obtain ⟨h1, h2, h3, _⟩ := attachOne_spec deg i σ
    obtain ⟨r1, r3, r4⟩ := attachDegrees_spec deg is (attachOne deg i σ).2
    simp only [attachDegrees]
    refine ⟨h3.trans r1, ?_, ?_⟩
    · intro j hj
      simp only [List.mem_cons] at hj
      rcases hj with rfl | hj
      · omega
      · have := r3 j hj; omega
    · simp only [List.map_cons, r4]; rfl

/-- **`attach_estimated_degrees` builds new metadata dictionaries**: every integral of the input form still has
    the metadata it had, and no integral of the output shares a dictionary with the input -/
theorem C27_md_attach (deg : Int → Int) (is : List IntegralM) (σ : Store) (hwf : ∀ i ∈ is, i.md < σ.length) :
    (∀ i ∈ is, Store.get (attachDegrees deg is σ).2 i.md = Store.get σ i.md) ∧
    (∀ j ∈ (attachDegrees deg is σ).1, ∀ i ∈ is, j.md ≠ i.md) := by
  obtain ⟨h2, h3, _⟩ := attachDegrees_spec deg is σ
  refine ⟨fun i hi => h2.2 i.md (hwf i hi), ?_⟩
  intro j hj i hi
  have := h3 j hj
  have := hwf i hi
  omega

theorem scaleOne_spec (scale : Int → Int × Int) (i : IntegralM) (σ : Store) :
    (scaleOne scale i σ).1.md = σ.length ∧ (scaleOne scale i σ).2.length = σ.length + 1 ∧
    Pres σ (scaleOne scale i σ).2 := by
  refine ⟨rfl, by simp [scaleOne, Store.alloc, Store.setItem, Store.updateFrom], ?_⟩
  simp only [scaleOne, Store.setItem, Store.updateFrom]
  exact pres_modify_new (pres_modify_new (pres_alloc σ []) _ _ (Nat.le_refl _)) _ _ (Nat.le_refl _)

theorem scaleIntegrals_spec (scale : Int → Int × Int) : ∀ (is : List IntegralM) (σ : Store),
    Pres σ (scaleIntegrals scale is σ).2 ∧
    (∀ j ∈ (scaleIntegrals scale is σ).1, σ.length ≤ j.md)
  | [], σ => by simp [scaleIntegrals, Pres.refl]
  | i :: is, σ => by
    obtain ⟨h1, h2, h3⟩ := scaleOne_spec scale i σ
    obtain ⟨r1, r3⟩ := scaleIntegrals_spec scale is (scaleOne scale i σ).2
    simp only [scaleIntegrals]
    refine ⟨h3.trans r1, ?_⟩
    intro j hj
    simp only [List.mem_cons] at hj
    rcases hj with rfl | hj
    · omega
    · have := r3 j hj; omega

/-- **`apply_integral_scaling` builds new metadata dictionaries** -/
theorem C27_md_scale (scale : Int → Int × Int) (is : List IntegralM) (σ : Store) (hwf : ∀ i ∈ is, i.md < σ.length) :
    (∀ i ∈ is, Store.get (scaleIntegrals scale is σ).2 i.md = Store.get σ i.md) ∧
    (∀ j ∈ (scaleIntegrals scale is σ).1, ∀ i ∈ is, j.md ≠ i.md) := by
  obtain ⟨h2, h3⟩ := scaleIntegrals_spec scale is σ
  refine ⟨fun i hi => h2.2 i.md (hwf i hi), ?_⟩
  intro j hj i hi
  have := h3 j hj
  have := hwf i hi
  omega

theorem pres_injectDegree (metadata : Option Nat) (degree scheme : Option Int) (σ : Store) :
    Pres σ (injectDegree metadata degree scheme σ).2 := by
  unfold injectDegree
  split
  · simp only [Store.setItem]
    have h0 := pres_alloc σ (match metadata with | none => [] | some b => Store.get σ b)
    cases degree <;> cases scheme <;> simp only
    · exact h0
    · exact pres_modify_new h0 _ _ (Nat.le_refl _)
    · exact pres_modify_new h0 _ _ (Nat.le_refl _)
    · exact pres_modify_new (pres_modify_new h0 _ _ (Nat.le_refl _)) _ _ (Nat.le_refl _)
  · exact Pres.refl σ

theorem pres_measureInit (own : Nat) (metadata : Option Nat) (σ : Store) : Pres σ (measureInit own metadata σ).2 := by
  unfold measureInit
  split
  · exact pres_alloc σ []
  · exact Pres.refl σ

/-- **`Measure.__call__` never writes into a dictionary that exists**: neither the measure's own metadata nor a
    dictionary passed as `metadata=` changes (with `degree=` / `scheme=` the entries go into a copy) -/
theorem C27_md_measureCall (own : Nat) (metadata : Option Nat) (degree scheme : Option Int) (σ : Store) :
    ∀ a, a < σ.length → Store.get (measureCall own metadata degree scheme σ).2 a = Store.get σ a := by
  have h1 := pres_injectDegree metadata degree scheme σ
  have h2 := pres_measureInit own (injectDegree metadata degree scheme σ).1 (injectDegree metadata degree scheme σ).2
  exact (h1.trans h2).2

/-- the theorem is not vacuous: the variant without the copy (`md = integral.metadata(); md[est] = degree`)
    changes the metadata of the input integral -/
theorem C27_md_inplace_counterexample :
    ¬ (∀ (deg : Int → Int) (i : IntegralM) (σ : Store), i.md < σ.length →
        Store.get (attachOneInPlace deg i σ).2 i.md = Store.get σ i.md) := by
  intro h
  have := h (fun _ => 7) ⟨0, 0⟩ [[]] (by decide)
  revert this
  decide

example : (attachDegrees (fun x => x + 1) [⟨5, 0⟩, ⟨6, 0⟩, ⟨7, 1⟩] [[(kDeg, 3)], []]) =
    ([⟨5, 2⟩, ⟨6, 3⟩, ⟨7, 4⟩], [[(kDeg, 3)], [], [(kDeg, 3), (kEst, 6)], [(kDeg, 3), (kEst, 7)], [(kEst, 8)]]) := by decide

example : (scaleIntegrals (fun x => (10 * x, 2)) [⟨5, 0⟩, ⟨6, 1⟩] [[(kEst, 3)], []]) =
    ([⟨50, 2⟩, ⟨60, 3⟩], [[(kEst, 3)], [], [(kEst, 5)], [(kEst, 2)]]) := by decide

-- dx(degree=2) on a measure without metadata; dx(metadata=md, degree=2); dx(metadata={}) ; dx(1)
example : measureCall 0 none (some 2) none [[]] = (1, [[], [(kDeg, 2)]]) := by decide
example : measureCall 0 (some 1) (some 2) (some 9) [[], [(5, 5)]] = (2, [[], [(5, 5)], [(5, 5), (kDeg, 2), (kRule, 9)]]) := by decide
example : measureCall 0 (some 1) none none [[(5, 5)], []] = (2, [[(5, 5)], [], []]) := by decide
example : measureCall 0 none none none [[(5, 5)]] = (0, [[(5, 5)]]) := by decide

/-! ## Non-vacuity: the hypotheses hold of non-trivial instances, and the writes do something there -/

namespace Demo

/-- `(f + g) * sin(f)` with a half-filled set of hash slots; node tags 1‥, type codes: 1 = Coefficient, 2 = Sum,
    3 = Product, 4 = Sin -/
def f : Obj := .node 1 1 [100] 0 [] none
def g : Obj := .node 2 1 [101] 0 [] (some (stdH 1 [101] []))
def a : Obj := .node 5 3 [] 50 [.node 3 2 [] 30 [f, g] none, .node 4 4 [] 40 [f] none] none
/-- an equal expression built separately (other tags, other operand tuples), already hashed -/
def b : Obj := Obj.fill stdH (.node 15 3 [] 150 [.node 13 2 [] 130 [f, g] none, .node 14 4 [] 140 [f] none] none)

example : a.memoOK stdH = true ∧ b.memoOK stdH = true := by decide
example : equalsTest stdH a b = true ∧ (shareWrite stdH b a).otag = 150 ∧ a.otag = 50 := by decide
example : (Obj.fill stdH a).memo ≠ a.memo := by decide
example : (((EWrite.memo [1]).apply stdH a).ops.map (·.memo.isSome)) = [false, true] ∧ a.ops.map (·.memo.isSome) = [false, false] ∧
    ((EWrite.share [] b).apply stdH a).otag = 150 := by decide
example : (eqOp stdH a b).1 = true ∧ (eqOp stdH a b).2.1.otag = 150 := by decide
-- an instance of C27_expr_sequence_partial, evaluated
example :
    let a' := [EWrite.memo [0], .share [] b, .memo [1, 0], .memo []].foldl (fun o w => w.apply stdH o) a
    Tree.beq a'.struct a.struct = true ∧ a'.hashOf stdH = a.hashOf stdH ∧ a'.otag ≠ a.otag ∧ a'.memo ≠ a.memo := by decide

def itg1 : IntegralObj := { tag := 20, integrand := a, pre := [0, 0, -1], post := [0], md := [(1, 3)] }
def itg2 : IntegralObj := { tag := 21, integrand := .node 6 4 [] 60 [g] none, pre := [1, 0, 2], post := [0], md := [] }
def F : FormObj := { tag := 30, integrals := [itg1, itg2], memo := fun _ => none }
def G : FormObj := { tag := 31, integrals := [{ itg1 with tag := 22, integrand := b }, { itg2 with tag := 23 }],
                     memo := fun f => if f = .hash then some (stdPure.spec F.struct .hash) else none }

example : F.memoOK stdPure = true ∧ G.memoOK stdPure = true := by decide +kernel
example : (acc stdPure .signature F).1 = some (stdPure.spec F.struct .signature) := by decide +kernel
example : (acc stdPure .geometricQuantities F).1 = none ∧
    (acc stdPure .geometricQuantities (acc stdPure .arguments F).2).1 = some (stdPure.gq F.struct) := by decide +kernel
example : (equals stdPure F G).1 = true ∧
    ((equals stdPure F G).2.1.integrals.map (·.integrand.otag)) = [150, 60] := by decide +kernel
example : [FOp.acc .signature, .equalsSelf G, .memo .subdomainData, .integrand 0 (.memo [1]), .integrand 0 (.reset []),
    .hashIntegrand 1, .traverseIntegrand 0].all
    (·.ok stdPure) = true := by decide +kernel

end Demo

end UflVerif.C27
