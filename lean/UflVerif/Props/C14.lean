/-
C14  The arity check accepts exactly multilinear integrands.

  "Whenever form arity checking (as run by compute_form_data) accepts an integrand, the integrand is linear
   in each form argument separately and contains exactly the form's arguments, and in complex mode is
   antilinear in the test function and linear in the others.  Integrands that are affine or nonlinear in an
   argument are rejected."

Model: `Arity.checkIntegrandArity strict e arguments cplx` (Model/Arity.lean) = `check_integrand_arity`, run by
`map_expr_dag` over `ArityChecker`; tied to the code by the regenerated dispatch table (`C14_table`) and by the
correspondence on every run (accept / raise site / returned tuple).

Reading of the statement
* An *argument* is an argument **number**: `Argument(V, 0, part=0)` and `Argument(V, 0, part=1)` are blocks of one
  test function, and the implementation deliberately lets them share a list tensor.  Linearity in number `n` =
  additivity and homogeneity when the data (values, derivative jets, both facet sides) of *all* Argument
  terminals with number `n` are replaced by `s • first + second` (`LinTest`, `Lin`).
* Complex mode: the scalar comes out conjugated for the test function (number 0) and plain for the others.
  Real mode: conjugation of the environment is the identity.
* Semantics: `Expr.eval`.  ReferenceValue, ReferenceGrad, CellAvg, FacetAvg, Inner, Dot, Outer have no
  interpretation there (value 0), so for those nodes the theorems are vacuous; Inner/Dot/Outer do not reach
  the check inside compute_form_data (algebra lowering runs first; observed on every run).

THE FULL STATEMENT (soundness without side condition)

    checkIntegrandArity strict e arguments cplx = ok A → shaped e → ConjOK ρ → (real mode → conj = id) → tied T.N T.n e →
      (∀ d, d ∈ argTerms e ↔ d ∈ arguments) ∧
      ((∃ d ∈ arguments, d.count = T.n) → Lin ρ T (if cplx ∧ T.n = 0 then conj T.s else T.s) e) ∧
      ((∀ d ∈ arguments, d.count ≠ T.n) → value independent of the data of number T.n)

is FALSE for the code as it stands (`strict = false`): `C14_listtensor_counterexample`
(`as_vector([v, f])[i]*g[i]` is accepted and is affine in `v`).  It is proved
* for the code as it stands under the side condition `zeroFill e` (an argument-free component of a list tensor
  that has components with arguments is `Zero`): `C14_sound_partial`;
* without side condition for the repaired rule (`strict = true`, fix_C14_1.diff): `C14_sound_strict`;
* for whichever rule the code under test was observed to implement on this run: `C14_sound_current`.
-/
import UflVerif.Sem.AritySound
import UflVerif.Gen.Arity
import UflVerif.Model.WF

namespace UflVerif.C14
open UflVerif Expr Arity

/-! ## the dispatch table of the live class -/

/-- one row of the regenerated table (type name, is terminal, handler function, cut-off) agrees with the
    model's dispatch; BaseForm types (`undefined`) are not expression nodes -/
def rowOK (r : String × Bool × String × Bool) : Bool :=
  let h := if r.2.1 then termHandler r.1 else handlerOf (Op.ofName r.1)
  r.2.2.1 == "undefined" || (h.pyName == r.2.2.1 && h.cutoff == r.2.2.2)

/-- the handler function and the cut-off flag the live `ArityChecker` computed for every registered UFL
    type are the ones of the model -/
theorem C14_table : ∀ r ∈ Gen.Arity.table, rowOK r = true := by decide +kernel

/-- the operator names of the model are registered types with exactly the expected handler: no row of the
    table is matched by accident through the default -/
theorem C14_table_covers :
    ∀ n ∈ ["Sum", "Product", "Division", "Inner", "Dot", "Outer", "PositiveRestricted", "NegativeRestricted", "CellAvg",
           "FacetAvg", "Grad", "ReferenceGrad", "ReferenceValue", "Conj", "Variable", "Conditional", "Indexed", "IndexSum",
           "ComponentTensor", "ListTensor", "Power", "Abs", "Real", "Imag", "Sqrt", "Exp", "Ln", "Sin", "Cos", "MinValue",
           "MaxValue", "LT", "EQ", "AndCondition", "Div", "Curl", "Transposed", "Argument", "Coefficient", "Zero", "MultiIndex", "Label"],
      (Gen.Arity.table.map (·.1)).contains n = true := by decide +kernel

section sound
variable {K : Type} [Field K]

/-! ## what acceptance means -/

theorem conjCheck_none : ∀ {A : Ar}, conjCheck A = none →
    ∀ p ∈ A, (p.1.count = 0 → p.2 = true) ∧ (p.1.count > 0 → p.2 = false)
  | [], _, p, hp => by cases hp
  | (d, c) :: rest, h, p, hp => by
    unfold conjCheck at h
    split at h
    · cases h
    · rename_i h1
      split at h
      · cases h
      · rename_i h2
        rcases List.mem_cons.1 hp with rfl | hp
        · constructor
          · intro h0; cases c <;> simp_all
          · intro h0; cases c <;> simp_all
        · exact conjCheck_none h p hp

theorem check_ok {st : Bool} {e : Expr} {arguments : List TermData} {cplx : Bool} {A : Ar}
    (h : checkIntegrandArity st e arguments cplx = .ok A) :
    arity st e = .ok A ∧ A.map (·.1) = sortTD (dedup arguments) ∧ (cplx = true → conjCheck A = none) := by
  unfold checkIntegrandArity at h
  simp only at h
  split at h
  · cases h
  · rename_i A' hA
    split at h
    · cases h
    · rename_i hargs
      split at h
      · rename_i hc
        split at h
        · cases h
        · rename_i hcc
          cases h
          exact ⟨hA, by simpa using hargs, fun _ => hcc⟩
      · rename_i hc
        cases h
        exact ⟨hA, by simpa using hargs, fun h' => absurd h' hc⟩

theorem mem_arguments {arguments : List TermData} {A : Ar} (h : A.map (·.1) = sortTD (dedup arguments)) (d : TermData) :
    d ∈ arguments ↔ ∃ b, (d, b) ∈ A := by
  have : d ∈ A.map (·.1) ↔ d ∈ arguments := by rw [h]; simp [sortTD, mem_sortBy, mem_dedup]
  rw [← this]
  simp

/-- the scalar that must come out for argument number `n` -/
def outScalar (ρ : Env K) (cplx : Bool) (n : Int) (s : K) : K := if cplx && n == 0 then ρ.conj s else s

/-- **Soundness of acceptance**, for either list-tensor rule: under `strict = true ∨ zeroFill e` an accepted
    integrand contains exactly the form's arguments, is linear in every form argument number (antilinear in the
    test function in complex mode), and does not depend on the data of any other argument number. -/
theorem C14_sound_core (st : Bool) (e : Expr) (arguments : List TermData) (cplx : Bool) (A : Ar)
    (h : checkIntegrandArity st e arguments cplx = .ok A) (hs : shaped e = true) (hz : st = true ∨ zeroFill e = true)
    (ρ : Env K) (hρ : ConjOK ρ) (hreal : cplx = false → ∀ x, ρ.conj x = x)
    (T : LinTest K) (ht : tied T.N T.n e = true) (hpos : cplx = true → 0 ≤ T.n) :
    (∀ d, d ∈ argTerms e ↔ d ∈ arguments) ∧
    ((∃ d ∈ arguments, d.count = T.n) → Lin ρ T (outScalar ρ cplx T.n T.s) e) ∧
    ((∀ d ∈ arguments, d.count ≠ T.n) → ∀ side ι c,
        eval (T.r12 ρ) side ι e c = eval ρ side ι e c ∧ eval (T.r1 ρ) side ι e c = eval ρ side ι e c ∧
        eval (T.r2 ρ) side ι e c = eval ρ side ι e c) := by
  obtain ⟨hA, hargs, hconj⟩ := check_ok h
  have hcov := cov st e A hA hs
  refine ⟨?_, ?_, ?_⟩
  · intro d
    rw [mem_arguments hargs]
    constructor
    · exact hcov.1 d
    · rintro ⟨b, hb⟩; exact hcov.2 _ hb
  · rintro ⟨d, hd, hc⟩
    obtain ⟨b, hb⟩ := (mem_arguments hargs d).1 hd
    have hn : T.n ∈ numbers A := (mem_numbers _ _).2 ⟨(d, b), hb, hc⟩
    apply sound st ρ hρ T e A hA hs ht hz hn
    intro p hp hpc
    unfold outScalar flag
    cases hcm : cplx
    · simp [hreal hcm]
    · have hcc := conjCheck_none (hconj hcm) p hp
      by_cases h0 : T.n = 0
      · have : p.2 = true := hcc.1 (by rw [hpc, h0])
        simp [h0, this]
      · have hgt : p.1.count > 0 := by have := hpos hcm; omega
        have : p.2 = false := hcc.2 hgt
        simp [h0, this]
  · intro hno side ι c
    apply indep ρ T e
    apply avoids_of_arity st T.N T.n e A hA hs ht
    intro hn
    obtain ⟨p, hp, hpc⟩ := (mem_numbers _ _).1 hn
    exact hno p.1 ((mem_arguments hargs p.1).2 ⟨p.2, hp⟩) hpc

/-- the code as it stands (`strict = false`), with the missing side condition `zeroFill` explicit -/
theorem C14_sound_partial (e : Expr) (arguments : List TermData) (cplx : Bool) (A : Ar)
    (h : checkIntegrandArity false e arguments cplx = .ok A) (hs : shaped e = true) (hz : zeroFill e = true)
    (ρ : Env K) (hρ : ConjOK ρ) (hreal : cplx = false → ∀ x, ρ.conj x = x)
    (T : LinTest K) (ht : tied T.N T.n e = true) (hpos : cplx = true → 0 ≤ T.n) :
    (∀ d, d ∈ argTerms e ↔ d ∈ arguments) ∧
    ((∃ d ∈ arguments, d.count = T.n) → Lin ρ T (outScalar ρ cplx T.n T.s) e) ∧
    ((∀ d ∈ arguments, d.count ≠ T.n) → ∀ side ι c,
        eval (T.r12 ρ) side ι e c = eval ρ side ι e c ∧ eval (T.r1 ρ) side ι e c = eval ρ side ι e c ∧
        eval (T.r2 ρ) side ι e c = eval ρ side ι e c) :=
  C14_sound_core false e arguments cplx A h hs (Or.inr hz) ρ hρ hreal T ht hpos

/-- the repaired rule (`strict = true`): the full statement, no side condition -/
theorem C14_sound_strict (e : Expr) (arguments : List TermData) (cplx : Bool) (A : Ar)
    (h : checkIntegrandArity true e arguments cplx = .ok A) (hs : shaped e = true)
    (ρ : Env K) (hρ : ConjOK ρ) (hreal : cplx = false → ∀ x, ρ.conj x = x)
    (T : LinTest K) (ht : tied T.N T.n e = true) (hpos : cplx = true → 0 ≤ T.n) :
    (∀ d, d ∈ argTerms e ↔ d ∈ arguments) ∧
    ((∃ d ∈ arguments, d.count = T.n) → Lin ρ T (outScalar ρ cplx T.n T.s) e) ∧
    ((∀ d ∈ arguments, d.count ≠ T.n) → ∀ side ι c,
        eval (T.r12 ρ) side ι e c = eval ρ side ι e c ∧ eval (T.r1 ρ) side ι e c = eval ρ side ι e c ∧
        eval (T.r2 ρ) side ι e c = eval ρ side ι e c) :=
  C14_sound_core true e arguments cplx A h hs (Or.inl rfl) ρ hρ hreal T ht hpos

/-- the rule the code under test was observed to implement on this run (regenerated flag): the side condition
    is needed exactly as long as the flag is `false` -/
theorem C14_sound_current (e : Expr) (arguments : List TermData) (cplx : Bool) (A : Ar)
    (h : checkIntegrandArity Gen.Arity.listTensorZeroOnly e arguments cplx = .ok A) (hs : shaped e = true)
    (hz : Gen.Arity.listTensorZeroOnly = true ∨ zeroFill e = true)
    (ρ : Env K) (hρ : ConjOK ρ) (hreal : cplx = false → ∀ x, ρ.conj x = x)
    (T : LinTest K) (ht : tied T.N T.n e = true) (hpos : cplx = true → 0 ≤ T.n) :
    (∀ d, d ∈ argTerms e ↔ d ∈ arguments) ∧
    ((∃ d ∈ arguments, d.count = T.n) → Lin ρ T (outScalar ρ cplx T.n T.s) e) ∧
    ((∀ d ∈ arguments, d.count ≠ T.n) → ∀ side ι c,
        eval (T.r12 ρ) side ι e c = eval ρ side ι e c ∧ eval (T.r1 ρ) side ι e c = eval ρ side ι e c ∧
        eval (T.r2 ρ) side ι e c = eval ρ side ι e c) :=
  C14_sound_core _ e arguments cplx A h hs hz ρ hρ hreal T ht hpos

/-- "Integrands that are affine or nonlinear in an argument are rejected", as the contrapositive: an integrand
    that fails one linearity test in a form argument is not accepted (same side condition). -/
theorem C14_rejects_not_linear (st : Bool) (e : Expr) (arguments : List TermData) (cplx : Bool)
    (hs : shaped e = true) (hz : st = true ∨ zeroFill e = true)
    (ρ : Env K) (hρ : ConjOK ρ) (hreal : cplx = false → ∀ x, ρ.conj x = x)
    (T : LinTest K) (ht : tied T.N T.n e = true) (hpos : cplx = true → 0 ≤ T.n)
    (harg : ∃ d ∈ arguments, d.count = T.n) (hnl : ¬ Lin ρ T (outScalar ρ cplx T.n T.s) e) :
    ∃ x, checkIntegrandArity st e arguments cplx = .error x := by
  cases hc : checkIntegrandArity st e arguments cplx with
  | error x => exact ⟨x, rfl⟩
  | ok A => exact absurd ((C14_sound_core st e arguments cplx A hc hs hz ρ hρ hreal T ht hpos).2.1 harg) hnl

end sound

/-! ## syntactic rejection rules (both list-tensor rules) -/

/-- a sum whose operands have different arities is rejected; in particular "linear + argument-free" (affine) -/
theorem C14_rejects_affine_sum (st : Bool) (aux : List Nat) (a b : Expr) (A B : Ar)
    (ha : arity st a = .ok A) (hb : arity st b = .ok B) (hne : A ≠ B) :
    arity st (.op .sum aux [a, b]) = .error .sum := by
  simp [arity, handlerOf, Handler.cutoff, arityL, ha, hb, runHandler, hSum, hne]

/-- an operator without a linearity rule (power, abs, sqrt, sin, comparisons, min/max, real, imag, unlowered
    compound operators, any unknown type ...) applied to anything containing an argument is rejected -/
theorem C14_rejects_nonlinear (st : Bool) (k : Op) (aux : List Nat) (args : List Expr)
    (hk : handlerOf k = .nonlinear) (h : hasArgL args = true) :
    arity st (.op k aux args) = .error .nonlinear := by
  simp [arity, hk, Handler.cutoff, h]

/-- products of two expressions that both depend on the same argument number are rejected (quadratic terms) -/
theorem C14_rejects_repeated_argument (st : Bool) (aux : List Nat) (a b : Expr) (A B : Ar)
    (ha : arity st a = .ok A) (hb : arity st b = .ok B) (x : TermData × Bool) (hx : x ∈ B) (hn : x.1.count ∈ numbers A) :
    arity st (.op .product aux [a, b]) = .error .productNumber := by
  have hA : A ≠ [] := by intro e; subst e; simp [numbers] at hn
  have hB : B ≠ [] := by intro e; subst e; cases hx
  have hany : (B.any fun x => (numbers A).contains x.1.count) = true := by
    simp only [List.any_eq_true]
    exact ⟨x, hx, by simpa using hn⟩
  simp only [arity, handlerOf, Handler.cutoff, Bool.false_eq_true, ↓reduceIte, arityL, ha, hb, runHandler]
  unfold hProduct
  rw [if_pos ⟨hA, hB⟩, if_pos hany]

/-- division by an expression depending on an argument is rejected -/
theorem C14_rejects_division_by_argument (st : Bool) (aux : List Nat) (a b : Expr) (A B : Ar)
    (ha : arity st a = .ok A) (hb : arity st b = .ok B) (hne : B ≠ []) :
    arity st (.op .division aux [a, b]) = .error .division := by
  simp [arity, handlerOf, Handler.cutoff, arityL, ha, hb, runHandler, hDivision, hne]

/-- a conditional with one branch depending on arguments and a non-`Zero` branch without is rejected -/
theorem C14_rejects_affine_conditional (st : Bool) (aux : List Nat) (p t f : Expr) (A : Ar)
    (hp : arity st p = .ok []) (ht : arity st t = .ok A) (hf : arity st f = .ok []) (hA : A ≠ [])
    (hz : Arity.isZero f = false) : arity st (.op .conditional aux [p, t, f]) = .error .conditional := by
  have hA' : ¬ ([] : Ar) = A := fun e => hA e.symm
  simp [arity, handlerOf, Handler.cutoff, arityL, hp, ht, hf, runHandler, hConditional, hA, hz]

/-- an integrand whose arity is not the tuple of the form's arguments is rejected -/
theorem C14_rejects_other_arguments (st : Bool) (e : Expr) (arguments : List TermData) (cplx : Bool) (A : Ar)
    (hA : arity st e = .ok A) (hne : A.map (·.1) ≠ sortTD (dedup arguments)) :
    checkIntegrandArity st e arguments cplx = .error .argumentsDiffer := by
  simp [checkIntegrandArity, hA, hne]

/-- complex mode: a test function that is not conjugated, or another argument that is, is rejected -/
theorem C14_rejects_wrong_conjugation (st : Bool) (e : Expr) (arguments : List TermData) (A : Ar)
    (hA : arity st e = .ok A) (p : TermData × Bool) (hp : p ∈ A)
    (hbad : (p.1.count = 0 ∧ p.2 = false) ∨ (p.1.count > 0 ∧ p.2 = true)) :
    ∃ x, checkIntegrandArity st e arguments true = .error x := by
  cases hc : checkIntegrandArity st e arguments true with
  | error x => exact ⟨x, rfl⟩
  | ok A' =>
    obtain ⟨hA', _, hcc⟩ := check_ok hc
    rw [hA] at hA'
    cases hA'
    have := conjCheck_none (hcc rfl) p hp
    rcases hbad with ⟨h0, hf⟩ | ⟨h0, hf⟩
    · have := this.1 h0; simp_all
    · have := this.2 h0; simp_all

/-! ## the list-tensor rule of the code as it stands is unsound -/

namespace Witness
def vD : TermData := { cls := "Argument", key := "v_0", shape := [], count := 0 }
def v : Expr := .term vD
def f : Expr := .term { cls := "Coefficient", key := "w_0", shape := [], count := 0 }
def g : Expr := .term { cls := "Coefficient", key := "w_1", shape := [2], count := 1 }
/-- `as_vector([v, f])[i] * g[i]`  (what `as_vector([v, f])[i]*g[i]*dx` is after preprocessing) -/
def e : Expr :=
  .op .indexSum [] [.op .product [] [.op .indexed [] [.op .listTensor [] [v, f], .mi [.free 0]],
                                     .op .indexed [] [g, .mi [.free 0]]], .mi [.free 0]]
/-- `as_vector([v, 0])[i] * g[i]` -/
def e0 : Expr :=
  .op .indexSum [] [.op .product [] [.op .indexed [] [.op .listTensor [] [v, .zero [] []], .mi [.free 0]],
                                     .op .indexed [] [g, .mi [.free 0]]], .mi [.free 0]]
/-- all coefficient data 1, real arithmetic over ℚ -/
def ρ : Env ℚ :=
  { term := fun _ _ _ => 1, jet := fun _ _ _ _ => 0, fn := fun _ x => x, fn2 := fun _ x _ => x, abs := id, conj := id,
    re := id, im := fun _ => 0, i := 0, lt := fun x y => decide (x < y), eq := fun x y => decide (x = y) }
/-- vary `v` (number 0): both data 0, scalar 1 -/
def T : LinTest ℚ :=
  { N := fun k => k == "v_0", n := 0, s := 1, t1 := fun _ _ _ => 0, j1 := fun _ _ _ _ => 0, t2 := fun _ _ _ => 0,
    j2 := fun _ _ _ _ => 0 }
theorem ρ_conj : ConjOK ρ := ⟨fun _ _ => rfl, fun _ _ => rfl, fun _ => rfl⟩
end Witness

open Witness in
/-- **Counterexample to the full statement for the code as it stands**: `as_vector([v, f])[i]*g[i]` is a
    well-formed integrand, accepted with arity `(v,)` for the form arguments `(v,)`, and it is not linear in `v`
    (with `v = 0` its value is `f*g[1] = 1`, and `1 ≠ 1*1 + 1`).  The repaired rule rejects it. -/
theorem C14_listtensor_counterexample :
    WF e = true ∧ shaped e = true ∧ tied T.N T.n e = true ∧ zeroFill e = false ∧
    checkIntegrandArity false e [vD] false = .ok [(vD, false)] ∧
    ¬ Lin ρ T (outScalar ρ false T.n T.s) e ∧
    checkIntegrandArity true e [vD] false = .error .listTensorNonzero := by
  refine ⟨by decide, by decide, by decide, by decide, by decide, ?_, by decide⟩
  intro h
  have h1 := h .none (fun _ => 0) []
  revert h1
  simp [e, v, f, g, vD, eval, sumRange, FI.dimOf, fi, shape, idxPairs, FI.insert, FI.merge, evalNth, Idx.resolve,
    IdxEnv.set, LinTest.r12, LinTest.r1, LinTest.r2, override, T, ρ, outScalar, List.range, List.range.loop]

/-! ## the hypotheses are satisfiable by non-trivial instances -/

open Witness in
/-- `as_vector([v, 0])[i]*g[i]` satisfies every hypothesis of `C14_sound_partial` and of `C14_sound_strict` -/
example : WF e0 = true ∧ shaped e0 = true ∧ zeroFill e0 = true ∧ tied T.N T.n e0 = true ∧
    checkIntegrandArity false e0 [vD] false = .ok [(vD, false)] ∧
    checkIntegrandArity true e0 [vD] false = .ok [(vD, false)] := by
  refine ⟨by decide, by decide, by decide, by decide, by decide, by decide⟩

open Witness in
/-- ... so the theorem applies and says it is linear in `v` -/
example : Lin ρ T 1 e0 :=
  (C14_sound_partial e0 [vD] false [(vD, false)] (by decide) (by decide) (by decide) ρ ρ_conj (fun _ _ => rfl) T
    (by decide) (by simp)).2.1 ⟨vD, by simp, rfl⟩

namespace Witness
def uD : TermData := { cls := "Argument", key := "v_1", shape := [], count := 1 }
/-- `u * conj(v)`: the complex mass matrix -/
def mass : Expr := .op .product [] [.term uD, .op .conj [] [v]]
/-- `u * v` without conjugation -/
def massBad : Expr := .op .product [] [.term uD, v]
end Witness

open Witness in
/-- complex mode: `u*conj(v)` is accepted with the test function conjugated, `u*v` is rejected, and a sum of an
    argument and a coefficient, a square and `sin(v)` are rejected -/
example : checkIntegrandArity false mass [vD, uD] true = .ok [(vD, true), (uD, false)] ∧
    checkIntegrandArity false massBad [vD, uD] true = .error .notConjugated ∧
    checkIntegrandArity false (.op .sum [] [v, f]) [vD] false = .error .sum ∧
    checkIntegrandArity false (.op .product [] [v, v]) [vD] false = .error .productNumber ∧
    checkIntegrandArity false (.op .sin [] [v]) [vD] false = .error .nonlinear ∧
    checkIntegrandArity false (.op .power [] [v, .int 1]) [vD] false = .error .nonlinear := by
  refine ⟨by decide, by decide, by decide, by decide, by decide, by decide⟩

end UflVerif.C14
