/-
C13 (deepening)  interchangeability: expressions that are `==` have the same shape, free indices and value.

`==` does not look at the data a node derives from its operands (`aux`: the geometric dimension a Grad appends, the value
shape of a ReferenceValue, …) and compares terminals by their own `==`.  Hence `a == b` gives: the two trees are equal once
every terminal is replaced by a representative of its `==` class (`C13_eq_canon`), provided the derived data agree
(`auxAgree`; checked on every `==` pair of the implementation by the correspondence).  Any observer that does not distinguish
`==` terminals therefore does not distinguish `==` expressions (`C13_eq_interchangeable`); with terminals whose `==` is exact
in the model (the framework identifies a terminal with its repr, and `==` implies identical repr: `C13_fields_*`), that is
every function of the model: shape, free indices and the denotational value for every environment (`C13_eq_same_value`).
-/
import UflVerif.Props.C13Eq
import UflVerif.Model.Eval
import UflVerif.Sem.Beq
import UflVerif.Props.C05Rebuild

namespace UflVerif.C13
open UflVerif Expr

variable (T : TermObs)

/- replace every terminal by the representative of its `==` class -/
mutual
def canon (rep : Expr → Expr) : Expr → Expr
  | .op k x as => .op k x (canonL rep as)
  | .int v => rep (.int v)
  | .real n d => rep (.real n d)
  | .cplx a b c d => rep (.cplx a b c d)
  | .zero s f => rep (.zero s f)
  | .mi is => rep (.mi is)
  | .term d => rep (.term d)
def canonL (rep : Expr → Expr) : List Expr → List Expr
  | [] => []
  | a :: as => canon rep a :: canonL rep as
end

/-- `rep` picks one representative per `==` class of terminals -/
def RepOK (rep : Expr → Expr) : Prop :=
  ∀ a b, a.isTerminal = true → b.isTerminal = true → T.teq a b = true → rep a = rep b

theorem canon_term (rep : Expr → Expr) (a : Expr) (h : a.isTerminal = true) : canon rep a = rep a := by
  cases a <;> simp_all [canon, isTerminal]

mutual
theorem canon_eq (rep : Expr → Expr) (hr : RepOK T rep) :
    ∀ a b : Expr, eqE T a b = true → auxAgree a b = true → canon rep a = canon rep b
  | .op k x as, b, he, hx => by
    cases b with
    | op k' x' bs =>
      simp only [eqE, Bool.and_eq_true, beq_iff_eq] at he
      simp only [auxAgree, Bool.and_eq_true, beq_iff_eq] at hx
      simp only [canon, he.1, hx.1, canonL_eq rep hr as bs he.2 hx.2]
    | _ => simp [eqE] at he
  | .int v, b, he, _ => by
    cases b <;> simp only [eqE, Bool.false_eq_true] at he <;> simpa [canon] using hr _ _ rfl rfl he
  | .real n d, b, he, _ => by
    cases b <;> simp only [eqE, Bool.false_eq_true] at he <;> simpa [canon] using hr _ _ rfl rfl he
  | .cplx p q r s, b, he, _ => by
    cases b <;> simp only [eqE, Bool.false_eq_true] at he <;> simpa [canon] using hr _ _ rfl rfl he
  | .zero sh f, b, he, _ => by
    cases b <;> simp only [eqE, Bool.false_eq_true] at he <;> simpa [canon] using hr _ _ rfl rfl he
  | .mi is, b, he, _ => by
    cases b <;> simp only [eqE, Bool.false_eq_true] at he <;> simpa [canon] using hr _ _ rfl rfl he
  | .term d, b, he, _ => by
    cases b <;> simp only [eqE, Bool.false_eq_true] at he <;> simpa [canon] using hr _ _ rfl rfl he
theorem canonL_eq (rep : Expr → Expr) (hr : RepOK T rep) :
    ∀ as bs : List Expr, eqL T as bs = true → auxAgreeL as bs = true → canonL rep as = canonL rep bs
  | [], [], _, _ => rfl
  | a :: as, b :: bs, he, hx => by
    simp only [eqL, Bool.and_eq_true] at he
    simp only [auxAgreeL, Bool.and_eq_true] at hx
    simp only [canonL, canon_eq rep hr a b he.1 hx.1, canonL_eq rep hr as bs he.2 hx.2]
  | [], _ :: _, he, _ => by simp [eqL] at he
  | _ :: _, [], he, _ => by simp [eqL] at he
end

/-- **`==` expressions are one tree up to the choice of terminals within their `==` classes** -/
theorem C13_eq_canon (rep : Expr → Expr) (hr : RepOK T rep) (a b : Expr) (he : eqE T a b = true)
    (hx : auxAgree a b = true) : canon rep a = canon rep b := canon_eq T rep hr a b he hx

/-- **interchangeability**: an observer that does not distinguish `==` terminals (it factors through `canon`) takes the same
    value on `==` expressions -/
theorem C13_eq_interchangeable {α : Type} (rep : Expr → Expr) (hr : RepOK T rep) (F : Expr → α)
    (hF : ∀ e, F e = F (canon rep e)) (a b : Expr) (he : eqE T a b = true) (hx : auxAgree a b = true) : F a = F b := by
  rw [hF a, hF b, C13_eq_canon T rep hr a b he hx]

/-- terminal `==` is exact in the model: `==` terminals are the same model terminal -/
def TermExact : Prop := ∀ a b, a.isTerminal = true → b.isTerminal = true → T.teq a b = true → a = b

mutual
theorem canon_id : ∀ a : Expr, canon id a = a
  | .op k x as => by simp only [canon, canonL_id as]
  | .int _ | .real .. | .cplx .. | .zero .. | .mi _ | .term _ => rfl
theorem canonL_id : ∀ as : List Expr, canonL id as = as
  | [] => rfl
  | a :: as => by simp only [canonL, canon_id a, canonL_id as]
end

/-- `a == b` (and agreeing derived data) is identity of the model trees when terminal `==` is exact -/
theorem C13_eq_struct (hx : TermExact T) (a b : Expr) (he : eqE T a b = true) (ha : auxAgree a b = true) : a = b := by
  have := C13_eq_canon T id (fun a b h1 h2 h => hx a b h1 h2 h) a b he ha
  rwa [canon_id, canon_id] at this

/-- **equal expressions have the same shape, the same free indices (with dimensions) and, for every environment, side,
    index assignment and component, the same value** -/
theorem C13_eq_same_value (hx : TermExact T) (a b : Expr) (he : eqE T a b = true) (ha : auxAgree a b = true) :
    shape a = shape b ∧ fi a = fi b ∧
    ∀ {K : Type} [Add K] [Mul K] [Sub K] [Neg K] [Div K] [Zero K] [One K] [IntCast K] [NatCast K]
      (ρ : Env K) (side : Side) (ι : IdxEnv) (c : List Nat), eval ρ side ι a c = eval ρ side ι b c := by
  have := C13_eq_struct T hx a b he ha
  subst this
  exact ⟨rfl, rfl, fun _ _ _ _ => rfl⟩

/-- exactness from the table: a view that is injective on the fields `==` sees (the class and those fields determine the
    model terminal) makes the table's terminal `==` exact -/
def ViewFaithful (V : FView) : Prop :=
  ∀ a b, a.isTerminal = true → b.isTerminal = true → clsOf a = clsOf b →
    proj V (·.eqSees) a = proj V (·.eqSees) b → a = b

theorem C13_table_exact (V : FView) (hV : ViewFaithful V) : TermExact (tableObs V) := by
  intro a b ha hb h
  obtain ⟨_, _, h3, h4⟩ := tableObs_teq V a b h
  exact hV a b ha hb h3 h4


/-! ### values under a terminal `==` that is coarser than identity

Terminals of one `==` class are mapped to one representative by a terminal mapping `m` (`RepOK T (substE m)`); a valuation is
*well defined on the classes* when it gives every mapped terminal the value of its representative (`ClassVal`).  By C21's
substitution lemma the value of an expression under such a valuation is the value of its canonical form, and `==` expressions
have one canonical form. -/

mutual
theorem canon_subst (m : Mapping) : ∀ a : Expr, canon (substE m) a = substE m a
  | .op k x as => by simp only [canon, substE, canonL_subst m as]
  | .int _ | .real .. | .cplx .. | .zero .. | .mi _ | .term _ => rfl
theorem canonL_subst (m : Mapping) : ∀ as : List Expr, canonL (substE m) as = substL m as
  | [] => rfl
  | a :: as => by simp only [canonL, substL, canon_subst m a, canonL_subst m as]
end

section
variable {K : Type} [Field K] [CharZero K]

/-- the valuation gives every mapped terminal the value of its representative -/
def ClassVal (ρ : Env K) (m : Mapping) (ι₀ : IdxEnv) : Prop :=
  ∀ side key c img, m.get key = some img → eval ρ side ι₀ img c = ρ.term side key c

theorem substEnv_of_classVal (ρ : Env K) (m : Mapping) (ι₀ : IdxEnv) (h : ClassVal ρ m ι₀) : C21.substEnv ρ m ι₀ = ρ := by
  have : (fun side key c => match m.get key with
      | some img => eval ρ side ι₀ img c
      | none => ρ.term side key c) = ρ.term := by
    funext side key c
    cases hk : m.get key with
    | none => rfl
    | some img => exact h side key c img hk
  cases ρ
  simp only [C21.substEnv]
  congr 1

/-- **equal expressions have the same value under every valuation that is well defined on the terminal `==` classes**
    (and the same shape and free indices).  Side conditions of the substitution lemma `C21_substitution_on`: well-formed
    expressions, representatives of the shape of the terminals they stand for (`MapOKOn`), no mapped Variable label, no
    mapped terminal below a gradient, a component of the right rank. -/
theorem C13_eq_same_value_classes (m : Mapping) (hr : RepOK T (substE m))
    (ρ : Env K) (ι₀ : IdxEnv) (hρ : ClassVal ρ m ι₀)
    (a b : Expr) (he : eqE T a b = true) (hx : auxAgree a b = true)
    (hma : C21.MapOKOn m a = true) (hmb : C21.MapOKOn m b = true) (hva : C21.VarOK m a = true) (hvb : C21.VarOK m b = true)
    (hwa : WF a = true) (hwb : WF b = true) (hga : C21.GradFree m a = true) (hgb : C21.GradFree m b = true) :
    shape a = shape b ∧ fi a = fi b ∧
    ∀ (side : Side) (ι : IdxEnv) (c : List Nat), c.length = (shape a).length →
      eval ρ side ι a c = eval ρ side ι b c := by
  have hc : substE m a = substE m b := by
    have := C13_eq_canon T (substE m) hr a b he hx
    rwa [canon_subst, canon_subst] at this
  have sa := C21.C21_substitution_on ρ m ι₀ .none (fun _ => 0) a (List.replicate (shape a).length 0) hma hva hwa hga (by simp)
  have sb := C21.C21_substitution_on ρ m ι₀ .none (fun _ => 0) b (List.replicate (shape b).length 0) hmb hvb hwb hgb (by simp)
  have hs : shape a = shape b := by rw [← sa.2.2.1, ← sb.2.2.1, hc]
  have hf : fi a = fi b := by rw [← sa.2.2.2, ← sb.2.2.2, hc]
  refine ⟨hs, hf, ?_⟩
  intro side ι c hcl
  have ea := (C21.C21_substitution_on ρ m ι₀ side ι a c hma hva hwa hga hcl).1
  have eb := (C21.C21_substitution_on ρ m ι₀ side ι b c hmb hvb hwb hgb (by rw [← hs]; exact hcl)).1
  rw [substEnv_of_classVal ρ m ι₀ hρ] at ea eb
  rw [← ea, ← eb, hc]
end

/-- non-vacuity: two coefficient objects `f1`, `f2` that are `==` without being the same model terminal -/
def exM : Mapping := [("f2", .term { cls := "Coefficient", key := "f1", shape := [] })]
def quotObs : TermObs where
  teq a b := Expr.beq (substE exM a) (substE exM b)
  thash a := stdObs.thash (substE exM a)
  trepr a := stdObs.trepr (substE exM a)
  mix := stdObs.mix

example : RepOK quotObs (substE exM) := fun a b _ _ h => Expr.beq_eq _ _ h
example : eqE quotObs
    (.op .sum [] [.term { cls := "Coefficient", key := "f2", shape := [] }, .term { cls := "Coefficient", key := "f1", shape := [] }])
    (.op .sum [] [.term { cls := "Coefficient", key := "f1", shape := [] }, .term { cls := "Coefficient", key := "f1", shape := [] }]) = true := by
  decide +kernel

/-- a valuation over ℚ that is constant on the class {f1, f2} -/
def exRho : Env ℚ where
  term := fun _ key _ => if key = "f1" ∨ key = "f2" then 5 else 0
  jet := fun _ _ _ _ => 0
  fn := fun _ x => x
  fn2 := fun _ x _ => x
  abs := id
  conj := id
  re := id
  im := fun _ => 0
  i := 0
  lt := fun x y => decide (x < y)
  eq := fun x y => decide (x = y)

theorem exRho_classVal : ClassVal exRho exM (fun _ => 0) := by
  intro side key c img h
  simp only [exM, Mapping.get, List.find?] at h
  by_cases hk : key = "f2"
  · subst hk
    simp at h
    subst h
    simp [eval, exRho]
  · have : ("f2" == key) = false := by simpa using fun e => hk e.symm
    simp [this] at h

def exA : Expr := .op .sum [] [.term { cls := "Coefficient", key := "f2", shape := [] }, .term { cls := "Coefficient", key := "f1", shape := [] }]
def exB : Expr := .op .sum [] [.term { cls := "Coefficient", key := "f1", shape := [] }, .term { cls := "Coefficient", key := "f1", shape := [] }]

/-- all hypotheses of `C13_eq_same_value_classes` together, on two different trees -/
example : exA ≠ exB ∧ ∀ side ι, eval exRho side ι exA [] = eval exRho side ι exB [] := by
  refine ⟨fun h => by simp [exA, exB] at h, fun side ι => ?_⟩
  exact (C13_eq_same_value_classes quotObs exM (fun a b _ _ h => Expr.beq_eq _ _ h) exRho (fun _ => 0) exRho_classVal exA exB
    (by decide +kernel) (by decide +kernel) (by decide +kernel) (by decide +kernel) (by decide +kernel) (by decide +kernel)
    (by decide +kernel) (by decide +kernel) (by decide +kernel) (by decide +kernel)).2.2 side ι [] (by decide +kernel)

/-! ### the hypotheses are satisfiable; `auxAgree` cannot be dropped -/

/-- the framework's own structural equality on terminals -/
def beqObs : TermObs where
  teq a b := Expr.beq a b
  thash a := (stdObs.thash a)
  trepr a := (stdObs.trepr a)
  mix := stdObs.mix

example : TermExact beqObs := fun a b _ _ h => Expr.beq_eq a b h

/-- the literals of the standard view: class and `==`-seen fields determine the literal -/
example : ∀ v w : Int, stdObs.teq (.int v) (.int w) = true → v = w := by
  intro v w h
  obtain ⟨_, _, _, h4⟩ := tableObs_teq stdView _ _ h
  have e1 : sees (·.eqSees) "IntValue" "value" = true := by decide +kernel
  simp [proj, stdView, stdFields, clsOf, e1] at h4
  exact h4

/-- without `auxAgree`: two `==` trees whose derived data differ have different shapes (not reachable in UFL, where the data
    are functions of the operands) -/
theorem C13_eq_same_value_needs_aux :
    ∃ a b : Expr, eqE beqObs a b = true ∧ shape a ≠ shape b :=
  ⟨.op .grad [2] [.term { cls := "Coefficient", key := "f", shape := [] }],
   .op .grad [3] [.term { cls := "Coefficient", key := "f", shape := [] }], by decide +kernel, by decide +kernel⟩

end UflVerif.C13
