import Mathlib.Analysis.Real.Sqrt
import Mathlib.Tactic.Ring
import Mathlib.Tactic.FieldSimp
import Mathlib.Tactic.LinearCombination
import Mathlib.Tactic.Positivity
import Mathlib.Tactic.NormNum
import UflVerif.Sem.CompoundSpec

/-!
C07: the actual cell.  A non-degenerate affine simplex is given by its vertices `v i k` (vertex `i`,
coordinate `k`), real numbers.  `cellEnv` interprets the symbols that remain in a geometry-lowered
expression by their documented meaning on that cell:

  J[i,j]                 = v (j+1) i − v 0 i          (Jacobian of the affine map from the reference simplex)
  CellOrigin[i]          = v 0 i
  SpatialCoordinate[i]   = x i                        (any point)
  CellOrientation        = co                         (±1, supplied per cell on manifolds)
  ReferenceCellVolume    = 1 / tdim!     ReferenceFacetVolume = 1 / (tdim−1)!
  CellEdgeVectors[e,k]   = v b k − v a k              (UFC edge numbering: triangle e0=(1,2) e1=(0,2) e2=(0,1);
                                                       tetrahedron e0=(2,3) e1=(1,3) e2=(1,2) e3=(0,3) e4=(0,2) e5=(0,1))
  CellFacetJacobian, ReferenceNormal, FacetEdgeVectors, CellRidgeJacobian: free data `rfj`, `rn`, `fev`, `rrj`
                                                       (the theorems state what they need of them)
and `abs`, `Sqrt`, `Re`, `conj`, `<` as on ℝ.
-/
namespace UflVerif.C07
open UflVerif Expr

structure Cell where
  tdim : Nat
  v : Nat → Nat → ℝ
  x : Nat → ℝ := fun _ => 0
  co : ℝ := 1
  rfj : Nat → Nat → ℝ := fun _ _ => 0
  rrj : Nat → Nat → ℝ := fun _ _ => 0
  rn : Nat → ℝ := fun _ => 0
  fev : Nat → Nat → ℝ := fun _ _ => 0

def edgeVerts : Nat → Nat → Nat × Nat
  | 2, 0 => (1, 2) | 2, 1 => (0, 2) | 2, 2 => (0, 1)
  | 3, 0 => (2, 3) | 3, 1 => (1, 3) | 3, 2 => (1, 2) | 3, 3 => (0, 3) | 3, 4 => (0, 2) | 3, 5 => (0, 1)
  | _, _ => (0, 1)

def fact : Nat → ℝ
  | 0 => 1 | 1 => 1 | 2 => 2 | 3 => 6 | _ => 24

noncomputable def cellEnv (C : Cell) : Env ℝ where
  term := fun _ key c =>
    match key, c with
    | "J", [i, j] => C.v (j + 1) i - C.v 0 i
    | "CellOrigin", [i] => C.v 0 i
    | "SpatialCoordinate", [i] => C.x i
    | "CellOrientation", [] => C.co
    | "ReferenceCellVolume", [] => 1 / fact C.tdim
    | "ReferenceFacetVolume", [] => 1 / fact (C.tdim - 1)
    | "CellEdgeVectors", [e, k] => C.v (edgeVerts C.tdim e).2 k - C.v (edgeVerts C.tdim e).1 k
    | "FacetEdgeVectors", [e, k] => C.fev e k
    | "CellFacetJacobian", [i, j] => C.rfj i j
    | "CellRidgeJacobian", [i, j] => C.rrj i j
    | "ReferenceNormal", [i] => C.rn i
    | _, _ => 0
  jet := fun _ _ _ _ => 0
  fn := fun n x => if n = "Sqrt" then Real.sqrt x else 0
  fn2 := fun _ _ _ => 0
  abs := fun x => |x|
  conj := id
  re := id
  im := fun _ => 0
  i := 0
  lt := fun x y => decide (x < y)
  eq := fun x y => decide (x = y)

/-- the Jacobian entries, for statements -/
def Cell.J (C : Cell) (i j : Nat) : ℝ := C.v (j + 1) i - C.v 0 i

/-- evaluate a lowered quantity on the cell -/
noncomputable def val (C : Cell) (e : Expr) (c : List Nat) : ℝ := eval (cellEnv C) .none (fun _ => 0) e c

macro "c07_eval" "[" extra:Lean.Parser.Tactic.simpLemma,* "]" : tactic =>
  `(tactic| simp [val, cellEnv, Cell.J, edgeVerts, fact, C06.ForAll, C06.allComps, C06.S, C06.kron, eval, evalNth, gradChain, mathName, fi, shape, sumRange, FI.dimOf, FI.insert, FI.merge, FI.remove,
      idxPairs, freeCounts, List.range, List.range.loop, IdxEnv.bind, IdxEnv.set, Idx.resolve, List.zipIdx, $extra,*])

/-- same, keeping nested `if a < b then a else b` (the semantics of min_value / max_value) intact -/
macro "c07_eval_mm" "[" extra:Lean.Parser.Tactic.simpLemma,* "]" : tactic =>
  `(tactic| simp [-min_lt_iff, -lt_min_iff, -lt_max_iff, -max_lt_iff, val, cellEnv, Cell.J, edgeVerts, fact, C06.ForAll, C06.allComps, C06.S, C06.kron, eval, evalNth, gradChain, mathName, fi, shape, sumRange, FI.dimOf, FI.insert, FI.merge, FI.remove,
      idxPairs, freeCounts, List.range, List.range.loop, IdxEnv.bind, IdxEnv.set, Idx.resolve, List.zipIdx, $extra,*])

end UflVerif.C07
