import UflVerif.Props.C07.Triangle2
import UflVerif.Gen.Geometry_triangle3

/-! C07 on a triangle immersed in 3D (vertices v₀ v₁ v₂ ∈ ℝ³): a = v₁−v₀, b = v₂−v₀ are the columns of J. -/
namespace UflVerif.C07
open UflVerif Expr Gen.Geometry

set_option maxRecDepth 8000
set_option maxHeartbeats 1600000

namespace Tri3
open triangle3

/-- components of a × b -/
def nx (C : Cell) : ℝ := C.J 1 0 * C.J 2 1 - C.J 2 0 * C.J 1 1
def ny (C : Cell) : ℝ := C.J 2 0 * C.J 0 1 - C.J 0 0 * C.J 2 1
def nz (C : Cell) : ℝ := C.J 0 0 * C.J 1 1 - C.J 1 0 * C.J 0 1
/-- |a × b|² = det(JᵀJ) -/
def gram (C : Cell) : ℝ := nx C ^ 2 + ny C ^ 2 + nz C ^ 2

theorem gram_nonneg (C : Cell) : 0 ≤ gram C := by unfold gram; positivity

/-- |a × b|² is the Gram determinant det(JᵀJ) (Lagrange's identity) -/
theorem gram_eq_det (C : Cell) :
    gram C = (C.J 0 0 ^ 2 + C.J 1 0 ^ 2 + C.J 2 0 ^ 2) * (C.J 0 1 ^ 2 + C.J 1 1 ^ 2 + C.J 2 1 ^ 2)
      - (C.J 0 0 * C.J 0 1 + C.J 1 0 * C.J 1 1 + C.J 2 0 * C.J 2 1) ^ 2 := by
  simp only [gram, nx, ny, nz]; ring

/-- pseudo-determinant = orientation × |a × b| -/
theorem C07_tri3_detJ (C : Cell) : val C jacobianDeterminant [] = C.co * √(gram C) := by
  c07_eval [jacobianDeterminant, gram, nx, ny, nz]
  simp only [← sq]
  left; congr 1; ring

/-- pseudo-inverse: K·J = 1 (2×2) -/
theorem C07_tri3_K (C : Cell) (h : gram C ≠ 0) :
    ∀ i ∈ [0, 1], ∀ j ∈ [0, 1], C06.S 3 (fun k => val C jacobianInverse [i, k] * C.J k j) = C06.kron i j := by
  c07_eval [jacobianInverse]
  gen_denom hd d
  have hne : d ≠ 0 := by
    rw [← hd]; intro h0; apply h; rw [gram_eq_det]; simp only [Cell.J]; linear_combination h0
  refine ⟨⟨?_, ?_⟩, ?_, ?_⟩ <;> field_simp <;> (try rw [← hd]) <;> ring1

/-- cell volume = |a × b| / 2 -/
theorem C07_tri3_volume (C : Cell) (hC : C.tdim = 2) (hco : |C.co| = 1) : val C cellVolume [] = √(gram C) / 2 := by
  c07_eval [cellVolume, hC, abs_mul, hco, gram, nx, ny, nz]
  simp only [← sq, abs_of_nonneg (Real.sqrt_nonneg _)]
  rw [inv_mul_eq_div]; congr 2; ring

/-- **cell normal**: unit, orthogonal to both tangents (columns of J), oriented by `co` along a × b -/
theorem C07_tri3_cell_normal (C : Cell) (h : gram C ≠ 0) (hco : C.co ^ 2 = 1) :
    val C cellNormal [0] ^ 2 + val C cellNormal [1] ^ 2 + val C cellNormal [2] ^ 2 = 1 ∧
    (∀ j ∈ [0, 1], C06.S 3 (fun i => val C cellNormal [i] * C.J i j) = 0) ∧
    ∃ lam : ℝ, 0 < lam ∧ val C cellNormal [0] = lam * (C.co * nx C) ∧ val C cellNormal [1] = lam * (C.co * ny C) ∧
      val C cellNormal [2] = lam * (C.co * nz C) := by
  c07_eval [cellNormal, nx, ny, nz]
  simp only [← sq]
  generalize hS : √_ = S
  have hS2 := Tri2.sq_of_sqrt_eq hS (by positivity)
  have hg : S ^ 2 = gram C := by rw [hS2]; simp only [gram, nx, ny, nz, Cell.J]; ring
  have hSne : S ≠ 0 := by intro h0; rw [h0] at hg; exact h (by rw [← hg]; ring)
  have hSpos : 0 < S := lt_of_le_of_ne (by rw [← hS]; exact Real.sqrt_nonneg _) (Ne.symm hSne)
  refine ⟨?_, ⟨?_, ?_⟩, 1 / S, by positivity, ?_, ?_, ?_⟩
  · rw [div_pow, div_pow, div_pow, ← add_div, ← add_div, mul_pow, mul_pow, mul_pow, hco, div_eq_one_iff_eq (pow_ne_zero 2 hSne), hS2]; ring
  · field_simp; ring
  · field_simp; ring
  · field_simp; ring
  · field_simp; ring
  · field_simp; ring

/-- squared edge lengths (3D) -/
def len2 (C : Cell) (a b : Nat) : ℝ := (C.v b 0 - C.v a 0) ^ 2 + (C.v b 1 - C.v a 1) ^ 2 + (C.v b 2 - C.v a 2) ^ 2

/-- R² = (l₀ l₁ l₂)² / (16 A²), A = |a × b| / 2 -/
theorem circumradius_sq (C : Cell) (hC : C.tdim = 2) (h : gram C ≠ 0) (hco : |C.co| = 1) :
    val C circumradius [] ^ 2 = len2 C 1 2 * len2 C 0 2 * len2 C 0 1 / (4 * gram C) ∧ 0 ≤ val C circumradius [] := by
  have hg := gram_nonneg C
  constructor
  · c07_eval [circumradius, hC, abs_mul, hco]
    simp only [← sq]
    simp (disch := positivity) only [div_pow, mul_pow, Real.sq_sqrt, sq_abs, inv_pow]
    have hgr : ((C.v 1 1 - C.v 0 1) * (C.v 2 2 - C.v 0 2) + -((C.v 2 1 - C.v 0 1) * (C.v 1 2 - C.v 0 2))) ^ 2 +
        ((C.v 2 0 - C.v 0 0) * (C.v 1 2 - C.v 0 2) + -((C.v 1 0 - C.v 0 0) * (C.v 2 2 - C.v 0 2))) ^ 2 +
        ((C.v 1 0 - C.v 0 0) * (C.v 2 1 - C.v 0 1) + -((C.v 2 0 - C.v 0 0) * (C.v 1 1 - C.v 0 1))) ^ 2 = gram C := by
      simp only [gram, nx, ny, nz, Cell.J]; ring
    rw [hgr]
    simp only [len2]
    field_simp
    ring
  · c07_eval [circumradius, hC]
    simp only [← sq]
    positivity

/-- space geometry: for a, b ∈ ℝ³ with n = a × b ≠ 0, u = ((|a|² b − |b|² a) × n) / (2|n|²) is at squared
    distance |a|²|b|²|b−a|²/(4|n|²) from 0, a and b (and lies in the plane of the triangle) -/
theorem circumcentre3 (ax ay az bx by' bz : ℝ)
    (hn : (ay * bz - az * by') ^ 2 + (az * bx - ax * bz) ^ 2 + (ax * by' - ay * bx) ^ 2 ≠ 0) :
    ∃ ux uy uz : ℝ,
      let R2 := ((bx - ax) ^ 2 + (by' - ay) ^ 2 + (bz - az) ^ 2) * (bx ^ 2 + by' ^ 2 + bz ^ 2) * (ax ^ 2 + ay ^ 2 + az ^ 2) /
        (4 * ((ay * bz - az * by') ^ 2 + (az * bx - ax * bz) ^ 2 + (ax * by' - ay * bx) ^ 2))
      ux ^ 2 + uy ^ 2 + uz ^ 2 = R2 ∧ (ux - ax) ^ 2 + (uy - ay) ^ 2 + (uz - az) ^ 2 = R2 ∧
      (ux - bx) ^ 2 + (uy - by') ^ 2 + (uz - bz) ^ 2 = R2 := by
  generalize hN : (ay * bz - az * by') ^ 2 + (az * bx - ax * bz) ^ 2 + (ax * by' - ay * bx) ^ 2 = N at hn
  -- w = |a|² b − |b|² a ;  u = (w × n) / (2N)
  let la := ax ^ 2 + ay ^ 2 + az ^ 2
  let lb := bx ^ 2 + by' ^ 2 + bz ^ 2
  let wx := la * bx - lb * ax
  let wy := la * by' - lb * ay
  let wz := la * bz - lb * az
  let n1 := ay * bz - az * by'
  let n2 := az * bx - ax * bz
  let n3 := ax * by' - ay * bx
  refine ⟨(wy * n3 - wz * n2) / (2 * N), (wz * n1 - wx * n3) / (2 * N), (wx * n2 - wy * n1) / (2 * N), ?_⟩
  simp only [wx, wy, wz, n1, n2, n3, la, lb]
  refine ⟨?_, ?_, ?_⟩ <;> field_simp <;> rw [← hN] <;> ring

/-- **circumradius** of the immersed triangle: non-negative, and some point is at that distance from all three vertices -/
theorem C07_tri3_circumradius (C : Cell) (hC : C.tdim = 2) (h : gram C ≠ 0) (hco : |C.co| = 1) :
    0 ≤ val C circumradius [] ∧
    ∃ c0 c1 c2 : ℝ, ∀ i ∈ [0, 1, 2],
      (c0 - C.v i 0) ^ 2 + (c1 - C.v i 1) ^ 2 + (c2 - C.v i 2) ^ 2 = val C circumradius [] ^ 2 := by
  obtain ⟨hR, hpos⟩ := circumradius_sq C hC h hco
  refine ⟨hpos, ?_⟩
  have hn : ((C.v 1 1 - C.v 0 1) * (C.v 2 2 - C.v 0 2) - (C.v 1 2 - C.v 0 2) * (C.v 2 1 - C.v 0 1)) ^ 2 +
      ((C.v 1 2 - C.v 0 2) * (C.v 2 0 - C.v 0 0) - (C.v 1 0 - C.v 0 0) * (C.v 2 2 - C.v 0 2)) ^ 2 +
      ((C.v 1 0 - C.v 0 0) * (C.v 2 1 - C.v 0 1) - (C.v 1 1 - C.v 0 1) * (C.v 2 0 - C.v 0 0)) ^ 2 ≠ 0 := by
    intro h0; apply h; simp only [gram, nx, ny, nz, Cell.J]; linear_combination h0
  obtain ⟨ux, uy, uz, h0, h1, h2⟩ := circumcentre3 (C.v 1 0 - C.v 0 0) (C.v 1 1 - C.v 0 1) (C.v 1 2 - C.v 0 2)
    (C.v 2 0 - C.v 0 0) (C.v 2 1 - C.v 0 1) (C.v 2 2 - C.v 0 2) hn
  refine ⟨C.v 0 0 + ux, C.v 0 1 + uy, C.v 0 2 + uz, ?_⟩
  rw [hR]
  simp only [List.mem_cons, List.mem_nil_iff, or_false, forall_eq_or_imp, forall_eq, len2, gram, nx, ny, nz, Cell.J]
  refine ⟨?_, ?_, ?_⟩
  · linear_combination h0
  · linear_combination h1
  · linear_combination h2

end Tri3
end UflVerif.C07
