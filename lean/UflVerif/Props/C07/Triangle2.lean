import UflVerif.Props.C07.Env
import UflVerif.Gen.Geometry_triangle2

namespace UflVerif.C07
open UflVerif Expr Gen.Geometry

set_option maxRecDepth 8000

namespace Tri2
open triangle2

/-- signed doubled area: det J -/
def det (C : Cell) : ℝ := C.J 0 0 * C.J 1 1 - C.J 0 1 * C.J 1 0

theorem C07_tri2_detJ (C : Cell) : val C jacobianDeterminant [] = det C := by
  c07_eval [jacobianDeterminant, det]; ring

theorem C07_tri2_K (C : Cell) (h : det C ≠ 0) :
    ∀ i ∈ [0, 1], ∀ j ∈ [0, 1], C06.S 2 (fun k => val C jacobianInverse [i, k] * C.J k j) = C06.kron i j := by
  c07_eval [jacobianInverse]
  gen_denom hd d
  have hne : d ≠ 0 := by rw [← hd]; intro h0; apply h; simp only [det, Cell.J]; linear_combination h0
  refine ⟨⟨?_, ?_⟩, ?_, ?_⟩ <;> field_simp <;> (try rw [← hd]) <;> ring1

/-- x = x₀ + J·X : the lowered cell coordinate is the reference coordinate of the point -/
theorem C07_tri2_X (C : Cell) (h : det C ≠ 0) :
    ∀ i ∈ [0, 1], C.v 0 i + C06.S 2 (fun k => C.J i k * val C cellCoordinate [k]) = C.x i := by
  c07_eval [cellCoordinate]
  gen_denom hd d
  have hne : d ≠ 0 := by rw [← hd]; intro h0; apply h; simp only [det, Cell.J]; linear_combination h0
  refine ⟨?_, ?_⟩ <;> field_simp <;> (try rw [← hd]) <;> ring1

/-- cell volume = |det J| / 2, the area of the triangle with these vertices -/
theorem C07_tri2_volume (C : Cell) (hC : C.tdim = 2) : val C cellVolume [] = |det C| / 2 := by
  c07_eval [cellVolume, hC, det, abs_mul]
  rw [← sub_eq_add_neg]; ring

/-- squared edge lengths of the triangle (UFC numbering: edge e is opposite vertex e) -/
def len2 (C : Cell) (a b : Nat) : ℝ := (C.v b 0 - C.v a 0) ^ 2 + (C.v b 1 - C.v a 1) ^ 2

theorem len2_nonneg (C : Cell) (a b : Nat) : 0 ≤ len2 C a b := by unfold len2; positivity

/-- R² = (l₀ l₁ l₂)² / (16 A²) with A = |det|/2 -/
theorem circumradius_sq (C : Cell) (hC : C.tdim = 2) (h : det C ≠ 0) :
    val C circumradius [] ^ 2 = len2 C 1 2 * len2 C 0 2 * len2 C 0 1 / (4 * det C ^ 2) ∧ 0 ≤ val C circumradius [] := by
  constructor
  · c07_eval [circumradius, hC]
    simp only [← sq]
    simp (disch := positivity) only [div_pow, mul_pow, Real.sq_sqrt, sq_abs, inv_pow]
    simp only [len2, det, Cell.J]
    have h' : (C.v 1 0 - C.v 0 0) * (C.v 2 1 - C.v 0 1) + -((C.v 2 0 - C.v 0 0) * (C.v 1 1 - C.v 0 1)) ≠ 0 := by
      intro h0; apply h; simp only [det, Cell.J]; linear_combination h0
    have h'' : (C.v 1 0 - C.v 0 0) * (C.v 2 1 - C.v 0 1) - (C.v 2 0 - C.v 0 0) * (C.v 1 1 - C.v 0 1) ≠ 0 := by
      intro h0; apply h'; linear_combination h0
    field_simp
    ring
  · c07_eval [circumradius, hC]
    simp only [← sq]
    positivity

/-- plane geometry: with a = v₁−v₀, b = v₂−v₀ and D = a×b ≠ 0, the point u = (b_y|a|² − a_y|b|², a_x|b|² − b_x|a|²)/(2D)
    is at squared distance |a|²|b|²|b−a|²/(4D²) from 0, a and b -/
theorem circumcentre2 (ax ay bx by' : ℝ) (hd : ax * by' - ay * bx ≠ 0) :
    ∃ ux uy : ℝ,
      let R2 := ((bx - ax) ^ 2 + (by' - ay) ^ 2) * (bx ^ 2 + by' ^ 2) * (ax ^ 2 + ay ^ 2) / (4 * (ax * by' - ay * bx) ^ 2)
      ux ^ 2 + uy ^ 2 = R2 ∧ (ux - ax) ^ 2 + (uy - ay) ^ 2 = R2 ∧ (ux - bx) ^ 2 + (uy - by') ^ 2 = R2 := by
  have hd' : by' * ax - ay * bx ≠ 0 := by intro h0; apply hd; linear_combination h0
  have hd'' : ax * by' - bx * ay ≠ 0 := by intro h0; apply hd; linear_combination h0
  refine ⟨(by' * (ax ^ 2 + ay ^ 2) - ay * (bx ^ 2 + by' ^ 2)) / (2 * (ax * by' - ay * bx)),
          (ax * (bx ^ 2 + by' ^ 2) - bx * (ax ^ 2 + ay ^ 2)) / (2 * (ax * by' - ay * bx)), ?_⟩
  refine ⟨?_, ?_, ?_⟩ <;> field_simp <;> ring

/-- **circumradius**: the lowered expression is non-negative and there is a point at that distance
    from all three vertices -/
theorem C07_tri2_circumradius (C : Cell) (hC : C.tdim = 2) (h : det C ≠ 0) :
    0 ≤ val C circumradius [] ∧
    ∃ c0 c1 : ℝ, ∀ i ∈ [0, 1, 2], (c0 - C.v i 0) ^ 2 + (c1 - C.v i 1) ^ 2 = val C circumradius [] ^ 2 := by
  obtain ⟨hR, hpos⟩ := circumradius_sq C hC h
  refine ⟨hpos, ?_⟩
  have hd : (C.v 1 0 - C.v 0 0) * (C.v 2 1 - C.v 0 1) - (C.v 1 1 - C.v 0 1) * (C.v 2 0 - C.v 0 0) ≠ 0 := by
    intro h0; apply h; simp only [det, Cell.J]; linear_combination h0
  obtain ⟨ux, uy, h0, h1, h2⟩ := circumcentre2 (C.v 1 0 - C.v 0 0) (C.v 1 1 - C.v 0 1) (C.v 2 0 - C.v 0 0) (C.v 2 1 - C.v 0 1) hd
  refine ⟨C.v 0 0 + ux, C.v 0 1 + uy, ?_⟩
  rw [hR]
  simp only [List.mem_cons, List.mem_nil_iff, or_false, forall_eq_or_imp, forall_eq, len2, det, Cell.J]
  refine ⟨?_, ?_, ?_⟩
  · linear_combination h0
  · linear_combination h1
  · linear_combination h2

theorem ite_lt_eq_min (a b : ℝ) : (if a < b then a else b) = min a b := by
  rcases lt_trichotomy a b with h | h | h
  · simp [h, min_eq_left h.le]
  · simp [h]
  · simp [not_lt.mpr h.le, min_eq_right h.le]

theorem ite_lt_eq_max (a b : ℝ) : (if b < a then a else b) = max a b := by
  rcases lt_trichotomy a b with h | h | h
  · simp [not_lt.mpr h.le, max_eq_right h.le]
  · simp [h]
  · simp [h, max_eq_left h.le]

theorem ite_or_eq_min (a b c : ℝ) : (if a < c ∨ b < c then min a b else c) = min (min a b) c := by
  have := ite_lt_eq_min (min a b) c
  simp only [min_lt_iff] at this
  convert this using 2

theorem ite_or_eq_max (a b c : ℝ) : (if c < a ∨ c < b then max a b else c) = max (max a b) c := by
  have := ite_lt_eq_max (max a b) c
  simp only [lt_max_iff] at this
  convert this using 2

theorem sq_of_sqrt_eq {X S : ℝ} (h : √X = S) (hX : 0 ≤ X) : S ^ 2 = X := by rw [← h]; exact Real.sq_sqrt hX

/-- length of the edge between vertices a and b -/
noncomputable def len (C : Cell) (a b : Nat) : ℝ := √(len2 C a b)

/-- **min / max cell edge length, cell diameter**: the shortest / longest of the three edges -/
theorem C07_tri2_min_edge (C : Cell) (hC : C.tdim = 2) :
    val C minCellEdgeLength [] = min (min (len C 1 2) (len C 0 2)) (len C 0 1) := by
  c07_eval [minCellEdgeLength, hC, ite_lt_eq_min]
  simp only [← sq, ite_or_eq_min, len, len2, Real.sqrt_monotone.map_min]

theorem C07_tri2_max_edge (C : Cell) (hC : C.tdim = 2) :
    val C maxCellEdgeLength [] = max (max (len C 1 2) (len C 0 2)) (len C 0 1) := by
  c07_eval [maxCellEdgeLength, hC, ite_lt_eq_max]
  simp only [← sq, ite_or_eq_max, len, len2, Real.sqrt_monotone.map_max]

theorem C07_tri2_diameter (C : Cell) (hC : C.tdim = 2) :
    val C cellDiameter [] = max (max (len C 1 2) (len C 0 2)) (len C 0 1) := by
  c07_eval [cellDiameter, hC, ite_lt_eq_max]
  simp only [← sq, ite_or_eq_max, len, len2, Real.sqrt_monotone.map_max]

/-- facet Jacobian = J · (reference facet Jacobian), entry by entry -/
theorem C07_tri2_facet_jacobian (C : Cell) :
    ∀ i ∈ [0, 1], val C facetJacobian [i, 0] = C06.S 2 (fun k => C.J i k * C.rfj k 0) := by
  c07_eval [facetJacobian]
  constructor <;> ring

/-- facet area = length of the image J·t of the reference facet tangent t (reference facet volume 1) -/
theorem C07_tri2_facet_area (C : Cell) (hC : C.tdim = 2) :
    val C facetArea [] = √((C06.S 2 (fun k => C.J 0 k * C.rfj k 0)) ^ 2 + (C06.S 2 (fun k => C.J 1 k * C.rfj k 0)) ^ 2) := by
  c07_eval [facetArea, hC]
  rw [abs_of_nonneg (Real.sqrt_nonneg _)]
  congr 1; ring

/-- **facet normal**: unit length, and for every reference direction t the physical direction J·t
    satisfies n·(J t) = λ (rn·t) with λ > 0 — so n is orthogonal to the facet (rn·t = 0) and points
    to the side the reference normal points to -/
theorem C07_tri2_facet_normal (C : Cell) (h : det C ≠ 0) (hrn : C.rn 0 ≠ 0 ∨ C.rn 1 ≠ 0) :
    val C facetNormal [0] ^ 2 + val C facetNormal [1] ^ 2 = 1 ∧
    ∃ lam : ℝ, 0 < lam ∧ ∀ t0 t1 : ℝ,
      val C facetNormal [0] * (C.J 0 0 * t0 + C.J 0 1 * t1) + val C facetNormal [1] * (C.J 1 0 * t0 + C.J 1 1 * t1)
        = lam * (C.rn 0 * t0 + C.rn 1 * t1) := by
  have hd : (C.v 1 0 - C.v 0 0) * (C.v 2 1 - C.v 0 1) + -((C.v 2 0 - C.v 0 0) * (C.v 1 1 - C.v 0 1)) ≠ 0 := by
    intro h0; apply h; simp only [det, Cell.J]; linear_combination h0
  c07_eval [facetNormal]
  simp only [← sq]
  generalize hD : (C.v 1 0 - C.v 0 0) * (C.v 2 1 - C.v 0 1) + -((C.v 2 0 - C.v 0 0) * (C.v 1 1 - C.v 0 1)) = D at hd ⊢
  generalize hS : √_ = S
  have hS2 := sq_of_sqrt_eq hS (by positivity)
  -- the squared length of Kᵀ rn is positive because rn ≠ 0 and D ≠ 0
  have hpos : 0 < S ^ 2 := by
    rw [hS2]
    by_contra hle
    have h0 : (C.rn 0 * ((C.v 2 1 - C.v 0 1) / D) + C.rn 1 * ((C.v 0 1 - C.v 1 1) / D)) ^ 2 +
              (C.rn 0 * ((C.v 0 0 - C.v 2 0) / D) + C.rn 1 * ((C.v 1 0 - C.v 0 0) / D)) ^ 2 = 0 :=
      le_antisymm (not_lt.mp hle) (by positivity)
    have ha := (add_eq_zero_iff_of_nonneg (by positivity) (by positivity)).mp h0
    have h1 : C.rn 0 * ((C.v 2 1 - C.v 0 1) / D) + C.rn 1 * ((C.v 0 1 - C.v 1 1) / D) = 0 := by simpa using ha.1
    have h2 : C.rn 0 * ((C.v 0 0 - C.v 2 0) / D) + C.rn 1 * ((C.v 1 0 - C.v 0 0) / D) = 0 := by simpa using ha.2
    field_simp at h1 h2
    have r0 : C.rn 0 * D = 0 := by rw [← hD]; linear_combination (C.v 1 0 - C.v 0 0) * h1 + (C.v 1 1 - C.v 0 1) * h2
    have r1 : C.rn 1 * D = 0 := by rw [← hD]; linear_combination (C.v 2 0 - C.v 0 0) * h1 + (C.v 2 1 - C.v 0 1) * h2
    rcases hrn with hr | hr
    · exact hr ((mul_eq_zero.mp r0).resolve_right hd)
    · exact hr ((mul_eq_zero.mp r1).resolve_right hd)
  have hSpos : 0 < S := by
    rcases lt_trichotomy S 0 with hneg | hz | hp
    · rw [← hS] at hneg; exact absurd (Real.sqrt_nonneg _) (not_le.mpr hneg)
    · rw [hz] at hpos; simp at hpos
    · exact hp
  have hSne : S ≠ 0 := ne_of_gt hSpos
  refine ⟨?_, 1 / S, by positivity, ?_⟩
  · rw [div_pow, div_pow, ← add_div, ← hS2]; exact div_self (pow_ne_zero 2 hSne)
  · intro t0 t1
    field_simp
    rw [← hD]; ring

end Tri2
