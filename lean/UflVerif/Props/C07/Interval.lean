import UflVerif.Props.C07.Triangle2
import UflVerif.Gen.Geometry_interval1
import UflVerif.Gen.Geometry_interval2
import UflVerif.Gen.Geometry_interval3

/-! C07 on intervals in 1D, 2D and 3D (vertices v₀, v₁). -/
namespace UflVerif.C07
open UflVerif Expr Gen.Geometry

set_option maxRecDepth 8000

/-- squared length of the interval in gdim dimensions -/
def ilen2 (C : Cell) : Nat → ℝ
  | 0 => 0
  | n + 1 => ilen2 C n + (C.v 1 n - C.v 0 n) ^ 2

theorem ilen2_nonneg (C : Cell) : ∀ n, 0 ≤ ilen2 C n
  | 0 => le_refl _
  | n + 1 => by unfold ilen2; have := ilen2_nonneg C n; positivity

namespace Int1
open interval1

theorem C07_int1_detJ (C : Cell) : val C jacobianDeterminant [] = C.v 1 0 - C.v 0 0 := by
  c07_eval [jacobianDeterminant]

theorem C07_int1_K (C : Cell) (h : C.v 1 0 - C.v 0 0 ≠ 0) : val C jacobianInverse [0, 0] * C.J 0 0 = 1 := by
  c07_eval [jacobianInverse]; field_simp

theorem C07_int1_X (C : Cell) (h : C.v 1 0 - C.v 0 0 ≠ 0) : C.v 0 0 + C.J 0 0 * val C cellCoordinate [0] = C.x 0 := by
  c07_eval [cellCoordinate]; field_simp; ring

/-- volume, min/max edge length and diameter are the length |v₁ − v₀|; the circumradius is half of it
    (the midpoint is at that distance from both vertices); a point facet has measure 1 -/
theorem C07_int1_lengths (C : Cell) (hC : C.tdim = 1) :
    val C cellVolume [] = |C.v 1 0 - C.v 0 0| ∧ val C minCellEdgeLength [] = |C.v 1 0 - C.v 0 0| ∧
    val C maxCellEdgeLength [] = |C.v 1 0 - C.v 0 0| ∧ val C cellDiameter [] = |C.v 1 0 - C.v 0 0| ∧
    val C circumradius [] = |C.v 1 0 - C.v 0 0| / 2 ∧ val C facetArea [] = 1 := by
  c07_eval [cellVolume, minCellEdgeLength, maxCellEdgeLength, cellDiameter, circumradius, facetArea, hC]
  ring

theorem C07_int1_circumcentre (C : Cell) (hC : C.tdim = 1) :
    ∀ i ∈ [0, 1], ((C.v 0 0 + C.v 1 0) / 2 - C.v i 0) ^ 2 = val C circumradius [] ^ 2 := by
  c07_eval [circumradius, hC]
  constructor <;> (rw [mul_pow, sq_abs]; ring)

/-- facet normal in 1D: ±1, pointing where the reference normal points after the map X ↦ v₀ + J X -/
theorem C07_int1_facet_normal (C : Cell) (h : C.v 1 0 - C.v 0 0 ≠ 0) (hrn : C.rn 0 ≠ 0) :
    ∃ lam : ℝ, 0 < lam ∧ ∀ t : ℝ, val C facetNormal [0] * (C.J 0 0 * t) = lam * (C.rn 0 * t) := by
  c07_eval [facetNormal]
  refine ⟨|C.v 1 0 - C.v 0 0|, abs_pos.mpr h, fun t => ?_⟩
  have := abs_pos.mpr h
  field_simp
  rw [sq_abs]

theorem C07_int1_facet_normal_unit (C : Cell) (h : C.v 1 0 - C.v 0 0 ≠ 0) :
    val C facetNormal [0] ^ 2 = C.rn 0 ^ 2 := by
  c07_eval [facetNormal]
  have := abs_pos.mpr h
  rw [div_pow, mul_pow, sq_abs]; field_simp

end Int1

namespace Int2
open interval2

/-- pseudo-determinant: orientation × length -/
theorem C07_int2_detJ (C : Cell) : val C jacobianDeterminant [] = C.co * √(ilen2 C 2) := by
  c07_eval [jacobianDeterminant, ilen2]; simp only [← sq]; simp

/-- pseudo-inverse: K·J = 1 -/
theorem C07_int2_K (C : Cell) (h : ilen2 C 2 ≠ 0) :
    C06.S 2 (fun k => val C jacobianInverse [0, k] * C.J k 0) = 1 := by
  simp only [ilen2] at h
  c07_eval [jacobianInverse]
  simp only [← sq]
  have h' : (C.v 1 0 - C.v 0 0) ^ 2 + (C.v 1 1 - C.v 0 1) ^ 2 ≠ 0 := by simpa using h
  field_simp

theorem C07_int2_lengths (C : Cell) (hC : C.tdim = 1) (hco : |C.co| = 1) :
    val C cellVolume [] = √(ilen2 C 2) ∧ val C cellDiameter [] = √(ilen2 C 2) ∧
    val C minCellEdgeLength [] = √(ilen2 C 2) ∧ val C maxCellEdgeLength [] = √(ilen2 C 2) ∧
    val C circumradius [] = √(ilen2 C 2) / 2 := by
  c07_eval [cellVolume, minCellEdgeLength, maxCellEdgeLength, cellDiameter, circumradius, hC, ilen2, abs_mul, hco]
  simp only [← sq, abs_of_nonneg (Real.sqrt_nonneg _), true_and, and_true]
  ring

/-- cell normal of a curve in the plane: unit, orthogonal to the tangent J, oriented by `co` -/
theorem C07_int2_cell_normal (C : Cell) (h : ilen2 C 2 ≠ 0) (hco : C.co ^ 2 = 1) :
    val C cellNormal [0] ^ 2 + val C cellNormal [1] ^ 2 = 1 ∧
    val C cellNormal [0] * C.J 0 0 + val C cellNormal [1] * C.J 1 0 = 0 := by
  simp only [ilen2] at h
  have h' : (C.v 0 1 - C.v 1 1) ^ 2 + (C.v 1 0 - C.v 0 0) ^ 2 ≠ 0 := by
    intro h0; apply h; simp only [zero_add]; linear_combination h0
  c07_eval [cellNormal]
  simp only [← sq]
  generalize hS : √_ = S
  have hS2 := Tri2.sq_of_sqrt_eq hS (by positivity)
  have hSne : S ≠ 0 := by intro h0; rw [h0] at hS2; exact h' (by linear_combination -hS2)
  constructor
  · rw [div_pow, div_pow, ← add_div, mul_pow, mul_pow, hco, hS2]; field_simp
  · field_simp; ring

/-- facet normal of a curve in the plane: ± the unit tangent -/
theorem C07_int2_facet_normal (C : Cell) (h : ilen2 C 2 ≠ 0) :
    val C facetNormal [0] ^ 2 + val C facetNormal [1] ^ 2 = C.rn 0 ^ 2 ∧
    ∃ lam : ℝ, 0 < lam ∧ ∀ t : ℝ, val C facetNormal [0] * (C.J 0 0 * t) + val C facetNormal [1] * (C.J 1 0 * t) = lam * (C.rn 0 * t) := by
  simp only [ilen2] at h
  have h' : (C.v 1 0 - C.v 0 0) ^ 2 + (C.v 1 1 - C.v 0 1) ^ 2 ≠ 0 := by simpa using h
  c07_eval [facetNormal]
  simp only [← sq]
  generalize hS : √_ = S
  have hS2 := Tri2.sq_of_sqrt_eq hS (by positivity)
  have hSne : S ≠ 0 := by intro h0; rw [h0] at hS2; exact h' (by linear_combination -hS2)
  have hSpos : 0 < S := lt_of_le_of_ne (by rw [← hS]; exact Real.sqrt_nonneg _) (Ne.symm hSne)
  refine ⟨?_, S, hSpos, fun t => ?_⟩
  · rw [div_pow, div_pow, ← add_div, mul_pow, mul_pow, ← mul_add, hS2]; field_simp
  · field_simp; rw [hS2]; ring

end Int2

namespace Int3
open interval3

theorem C07_int3_detJ (C : Cell) : val C jacobianDeterminant [] = C.co * √(ilen2 C 3) := by
  c07_eval [jacobianDeterminant, ilen2]; simp only [← sq]; simp

theorem C07_int3_K (C : Cell) (h : ilen2 C 3 ≠ 0) :
    C06.S 3 (fun k => val C jacobianInverse [0, k] * C.J k 0) = 1 := by
  simp only [ilen2] at h
  c07_eval [jacobianInverse]
  simp only [← sq]
  have h' : (C.v 1 0 - C.v 0 0) ^ 2 + (C.v 1 1 - C.v 0 1) ^ 2 + (C.v 1 2 - C.v 0 2) ^ 2 ≠ 0 := by simpa using h
  field_simp

theorem C07_int3_lengths (C : Cell) (hC : C.tdim = 1) (hco : |C.co| = 1) :
    val C cellVolume [] = √(ilen2 C 3) ∧ val C cellDiameter [] = √(ilen2 C 3) ∧
    val C circumradius [] = √(ilen2 C 3) / 2 := by
  c07_eval [cellVolume, cellDiameter, circumradius, hC, ilen2, abs_mul, hco]
  simp only [← sq, abs_of_nonneg (Real.sqrt_nonneg _), true_and, and_true]
  ring

end Int3
end UflVerif.C07
