import UflVerif.Props.C07.Env
import UflVerif.Gen.Geometry_interval1
import UflVerif.Gen.Geometry_interval2
import UflVerif.Gen.Geometry_interval3
import UflVerif.Gen.Geometry_triangle2
import UflVerif.Gen.Geometry_triangle3
import UflVerif.Gen.Geometry_tetrahedron3

/-! C07: lowering several quantities in ONE pass (shared memoisation inside the applier, shared sub-expressions in
the DAG) gives, for every cell, the sum of the values of the quantities lowered one at a time — so the per-quantity
theorems also speak about quantities occurring together in an integrand. -/
namespace UflVerif.C07
open UflVerif Expr Gen.Geometry

set_option maxRecDepth 16000
set_option maxHeartbeats 3200000

theorem C07_combined_interval1 (C : Cell) :
    val C interval1.combined [] = (interval1.combinedParts.map (val C · [])).sum := by
  open interval1 in
  c07_eval_mm [combined, combinedParts, jacobianDeterminant, cellVolume, facetArea, circumradius, minCellEdgeLength, maxCellEdgeLength, cellDiameter]
  try ring

theorem C07_combined_interval2 (C : Cell) :
    val C interval2.combined [] = (interval2.combinedParts.map (val C · [])).sum := by
  open interval2 in
  c07_eval_mm [combined, combinedParts, jacobianDeterminant, cellVolume, facetArea, circumradius, minCellEdgeLength, maxCellEdgeLength, cellDiameter]
  try ring

theorem C07_combined_interval3 (C : Cell) :
    val C interval3.combined [] = (interval3.combinedParts.map (val C · [])).sum := by
  open interval3 in
  c07_eval_mm [combined, combinedParts, jacobianDeterminant, cellVolume, facetArea, circumradius, minCellEdgeLength, maxCellEdgeLength, cellDiameter]
  try ring

theorem C07_combined_triangle2 (C : Cell) :
    val C triangle2.combined [] = (triangle2.combinedParts.map (val C · [])).sum := by
  open triangle2 in
  c07_eval_mm [combined, combinedParts, jacobianDeterminant, facetJacobianDeterminant, cellVolume, facetArea, circumradius, minCellEdgeLength, maxCellEdgeLength, cellDiameter]
  try ring

theorem C07_combined_triangle3 (C : Cell) :
    val C triangle3.combined [] = (triangle3.combinedParts.map (val C · [])).sum := by
  open triangle3 in
  c07_eval_mm [combined, combinedParts, jacobianDeterminant, facetJacobianDeterminant, cellVolume, facetArea, circumradius, minCellEdgeLength, maxCellEdgeLength, cellDiameter]
  try ring

theorem C07_combined_tetrahedron3 (C : Cell) :
    val C tetrahedron3.combined [] = (tetrahedron3.combinedParts.map (val C · [])).sum := by
  open tetrahedron3 in
  c07_eval_mm [combined, combinedParts, jacobianDeterminant, facetJacobianDeterminant, ridgeJacobianDeterminant, cellVolume, facetArea, circumradius,
    minCellEdgeLength, maxCellEdgeLength, cellDiameter, minFacetEdgeLength, maxFacetEdgeLength]
  try ring

end UflVerif.C07
