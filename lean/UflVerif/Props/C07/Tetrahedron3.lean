import UflVerif.Props.C07.Triangle2
import UflVerif.Gen.Geometry_tetrahedron3

/-! C07 on a tetrahedron (vertices v₀..v₃ ∈ ℝ³): a = v₁−v₀, b = v₂−v₀, c = v₃−v₀ are the columns of J. -/
namespace UflVerif.C07
open UflVerif Expr Gen.Geometry

set_option maxRecDepth 16000
set_option maxHeartbeats 3200000

namespace Tet3
open tetrahedron3

/-- det J = a · (b × c) -/
def det (C : Cell) : ℝ :=
  C.J 0 0 * (C.J 1 1 * C.J 2 2 - C.J 1 2 * C.J 2 1) - C.J 0 1 * (C.J 1 0 * C.J 2 2 - C.J 1 2 * C.J 2 0)
    + C.J 0 2 * (C.J 1 0 * C.J 2 1 - C.J 1 1 * C.J 2 0)

theorem C07_tet3_detJ (C : Cell) : val C jacobianDeterminant [] = det C := by
  c07_eval [jacobianDeterminant, det]; ring

theorem C07_tet3_K (C : Cell) (h : det C ≠ 0) :
    ∀ i ∈ [0, 1, 2], ∀ j ∈ [0, 1, 2], C06.S 3 (fun k => val C jacobianInverse [i, k] * C.J k j) = C06.kron i j := by
  c07_eval [jacobianInverse]
  gen_denom hd d
  have hne : d ≠ 0 := by rw [← hd]; intro h0; apply h; simp only [det, Cell.J]; linear_combination h0
  refine ⟨⟨?_, ?_, ?_⟩, ⟨?_, ?_, ?_⟩, ?_, ?_, ?_⟩ <;> field_simp <;> (try rw [← hd]) <;> ring1

theorem C07_tet3_X (C : Cell) (h : det C ≠ 0) :
    ∀ i ∈ [0, 1, 2], C.v 0 i + C06.S 3 (fun k => C.J i k * val C cellCoordinate [k]) = C.x i := by
  c07_eval [cellCoordinate]
  gen_denom hd d
  have hne : d ≠ 0 := by rw [← hd]; intro h0; apply h; simp only [det, Cell.J]; linear_combination h0
  refine ⟨?_, ?_, ?_⟩ <;> field_simp <;> (try rw [← hd]) <;> ring1

/-- cell volume = |a · (b × c)| / 6 -/
theorem C07_tet3_volume (C : Cell) (hC : C.tdim = 3) : val C cellVolume [] = |det C| / 6 := by
  c07_eval [cellVolume, hC, det, abs_mul]
  rw [inv_mul_eq_div]; congr 2; ring

/-- facet Jacobian = J · (reference facet Jacobian) -/
theorem C07_tet3_facet_jacobian (C : Cell) :
    ∀ i ∈ [0, 1, 2], ∀ j ∈ [0, 1], val C facetJacobian [i, j] = C06.S 3 (fun k => C.J i k * C.rfj k j) := by
  c07_eval [facetJacobian]
  refine ⟨⟨?_, ?_⟩, ⟨?_, ?_⟩, ?_, ?_⟩ <;> ring

/-- **facet normal**: unit length; for every reference direction t, n·(J t) = λ (rn·t) with λ > 0: orthogonal
    to the facet (directions with rn·t = 0) and pointing to the side the reference normal points to -/
theorem C07_tet3_facet_normal (C : Cell) (h : det C ≠ 0) (hrn : C.rn 0 ≠ 0 ∨ C.rn 1 ≠ 0 ∨ C.rn 2 ≠ 0) :
    val C facetNormal [0] ^ 2 + val C facetNormal [1] ^ 2 + val C facetNormal [2] ^ 2 = 1 ∧
    ∃ lam : ℝ, 0 < lam ∧ ∀ t0 t1 t2 : ℝ,
      C06.S 3 (fun i => val C facetNormal [i] * (C.J i 0 * t0 + C.J i 1 * t1 + C.J i 2 * t2))
        = lam * (C.rn 0 * t0 + C.rn 1 * t1 + C.rn 2 * t2) := by
  c07_eval [facetNormal]
  simp only [← sq]
  gen_denom hD D
  have hd : D ≠ 0 := by rw [← hD]; intro h0; apply h; simp only [det, Cell.J]; linear_combination h0
  generalize hS : √_ = S
  have hS2 := Tri2.sq_of_sqrt_eq hS (by positivity)
  have hpos : 0 < S ^ 2 := by
    rw [hS2]
    by_contra hle
    have h0 := le_antisymm (not_lt.mp hle) (by positivity)
    have ha := (add_eq_zero_iff_of_nonneg (by positivity) (by positivity)).mp h0
    have hb := (add_eq_zero_iff_of_nonneg (by positivity) (by positivity)).mp ha.1
    have h1 := pow_eq_zero_iff (two_ne_zero) |>.mp hb.1
    have h2 := pow_eq_zero_iff (two_ne_zero) |>.mp hb.2
    have h3 := pow_eq_zero_iff (two_ne_zero) |>.mp ha.2
    field_simp at h1 h2 h3
    have r0 : C.rn 0 * D = 0 := by
      rw [← hD]; linear_combination (C.v 1 0 - C.v 0 0) * h1 + (C.v 1 1 - C.v 0 1) * h2 + (C.v 1 2 - C.v 0 2) * h3
    have r1 : C.rn 1 * D = 0 := by
      rw [← hD]; linear_combination (C.v 2 0 - C.v 0 0) * h1 + (C.v 2 1 - C.v 0 1) * h2 + (C.v 2 2 - C.v 0 2) * h3
    have r2 : C.rn 2 * D = 0 := by
      rw [← hD]; linear_combination (C.v 3 0 - C.v 0 0) * h1 + (C.v 3 1 - C.v 0 1) * h2 + (C.v 3 2 - C.v 0 2) * h3
    rcases hrn with hr | hr | hr
    · exact hr ((mul_eq_zero.mp r0).resolve_right hd)
    · exact hr ((mul_eq_zero.mp r1).resolve_right hd)
    · exact hr ((mul_eq_zero.mp r2).resolve_right hd)
  have hSne : S ≠ 0 := by intro h0; rw [h0] at hpos; simp at hpos
  have hSpos : 0 < S := lt_of_le_of_ne (by rw [← hS]; exact Real.sqrt_nonneg _) (Ne.symm hSne)
  refine ⟨?_, 1 / S, by positivity, ?_⟩
  · rw [div_pow, div_pow, div_pow, ← add_div, ← add_div, ← hS2]; exact div_self (pow_ne_zero 2 hSne)
  · intro t0 t1 t2
    field_simp
    rw [← hD]; ring

/-- solid geometry core (pure real algebra): a, b, c ∈ ℝ³ with D = a·(b×c) ≠ 0; L₀..L₅ are the six edge lengths
    (L₅=|a|, L₄=|b|, L₃=|c|, L₂=|b−a|, L₁=|c−a|, L₀=|c−b|); la, lb, lc the products of opposite edges and
    q = s(s−la)(s−lb)(s−lc), s = (la+lb+lc)/2.  Then q = |N|²/4 with N = |a|²(b×c) + |b|²(c×a) + |c|²(a×b),
    and u = N/(2D) is at squared distance q/D² from 0, a, b and c. -/
theorem tet_core (ax ay az bx by' bz cx cy cz L0 L1 L2 L3 L4 L5 : ℝ)
    (h5 : L5 ^ 2 = ax ^ 2 + ay ^ 2 + az ^ 2) (h4 : L4 ^ 2 = bx ^ 2 + by' ^ 2 + bz ^ 2) (h3 : L3 ^ 2 = cx ^ 2 + cy ^ 2 + cz ^ 2)
    (h2 : L2 ^ 2 = (bx - ax) ^ 2 + (by' - ay) ^ 2 + (bz - az) ^ 2) (h1 : L1 ^ 2 = (cx - ax) ^ 2 + (cy - ay) ^ 2 + (cz - az) ^ 2)
    (h0 : L0 ^ 2 = (cx - bx) ^ 2 + (cy - by') ^ 2 + (cz - bz) ^ 2)
    (D : ℝ) (hD : D = ax * (by' * cz - bz * cy) - bx * (ay * cz - az * cy) + cx * (ay * bz - az * by')) (hne : D ≠ 0) :
    ∃ q : ℝ, q = (L2 * L3 + L1 * L4 + L0 * L5) / 2 * ((L2 * L3 + L1 * L4 + L0 * L5) / 2 - L2 * L3) *
        ((L2 * L3 + L1 * L4 + L0 * L5) / 2 - L1 * L4) * ((L2 * L3 + L1 * L4 + L0 * L5) / 2 - L0 * L5) ∧
    0 ≤ q ∧ ∃ ux uy uz : ℝ,
      ux ^ 2 + uy ^ 2 + uz ^ 2 = q / D ^ 2 ∧ (ux - ax) ^ 2 + (uy - ay) ^ 2 + (uz - az) ^ 2 = q / D ^ 2 ∧
      (ux - bx) ^ 2 + (uy - by') ^ 2 + (uz - bz) ^ 2 = q / D ^ 2 ∧ (ux - cx) ^ 2 + (uy - cy) ^ 2 + (uz - cz) ^ 2 = q / D ^ 2 := by
  refine ⟨_, rfl, ?_⟩
  generalize hqq : (L2 * L3 + L1 * L4 + L0 * L5) / 2 * ((L2 * L3 + L1 * L4 + L0 * L5) / 2 - L2 * L3) *
        ((L2 * L3 + L1 * L4 + L0 * L5) / 2 - L1 * L4) * ((L2 * L3 + L1 * L4 + L0 * L5) / 2 - L0 * L5) = q
  -- N = |a|²(b×c) + |b|²(c×a) + |c|²(a×b)
  let A2 := ax ^ 2 + ay ^ 2 + az ^ 2
  let B2 := bx ^ 2 + by' ^ 2 + bz ^ 2
  let C2 := cx ^ 2 + cy ^ 2 + cz ^ 2
  let Nx := A2 * (by' * cz - bz * cy) + B2 * (cy * az - cz * ay) + C2 * (ay * bz - az * by')
  let Ny := A2 * (bz * cx - bx * cz) + B2 * (cz * ax - cx * az) + C2 * (az * bx - ax * bz)
  let Nz := A2 * (bx * cy - by' * cx) + B2 * (cx * ay - cy * ax) + C2 * (ax * by' - ay * bx)
  have hq : q = (Nx ^ 2 + Ny ^ 2 + Nz ^ 2) / 4 := by
    have e : q = (2 * ((L2 ^ 2 * L3 ^ 2) * (L1 ^ 2 * L4 ^ 2) + (L1 ^ 2 * L4 ^ 2) * (L0 ^ 2 * L5 ^ 2) + (L0 ^ 2 * L5 ^ 2) * (L2 ^ 2 * L3 ^ 2))
        - (L2 ^ 2 * L3 ^ 2) ^ 2 - (L1 ^ 2 * L4 ^ 2) ^ 2 - (L0 ^ 2 * L5 ^ 2) ^ 2) / 16 := by
      rw [← hqq]; ring
    rw [e, h0, h1, h2, h3, h4, h5]
    simp only [Nx, Ny, Nz, A2, B2, C2]
    ring
  refine ⟨by rw [hq]; positivity, Nx / (2 * D), Ny / (2 * D), Nz / (2 * D), ?_, ?_, ?_, ?_⟩
  all_goals (rw [hq]; simp only [Nx, Ny, Nz, A2, B2, C2]; field_simp; (try rw [hD]); ring)

/-- squared edge lengths -/
def len2 (C : Cell) (a b : Nat) : ℝ := (C.v b 0 - C.v a 0) ^ 2 + (C.v b 1 - C.v a 1) ^ 2 + (C.v b 2 - C.v a 2) ^ 2

theorem len2_nonneg (C : Cell) (a b : Nat) : 0 ≤ len2 C a b := by unfold len2; positivity

/-- **circumradius of the tetrahedron**: the lowered expression (Heron-type formula on the products of opposite
    edge lengths over 6·volume) is non-negative, and some point is at exactly that distance from all four
    vertices — for every non-degenerate tetrahedron -/
theorem C07_tet3_circumradius (C : Cell) (hC : C.tdim = 3) (h : det C ≠ 0) :
    0 ≤ val C circumradius [] ∧
    ∃ c0 c1 c2 : ℝ, ∀ i ∈ [0, 1, 2, 3],
      (c0 - C.v i 0) ^ 2 + (c1 - C.v i 1) ^ 2 + (c2 - C.v i 2) ^ 2 = val C circumradius [] ^ 2 := by
  obtain ⟨D, hDdef⟩ : ∃ D : ℝ, D = (C.v 1 0 - C.v 0 0) * ((C.v 2 1 - C.v 0 1) * (C.v 3 2 - C.v 0 2) - (C.v 2 2 - C.v 0 2) * (C.v 3 1 - C.v 0 1))
      - (C.v 2 0 - C.v 0 0) * ((C.v 1 1 - C.v 0 1) * (C.v 3 2 - C.v 0 2) - (C.v 1 2 - C.v 0 2) * (C.v 3 1 - C.v 0 1))
      + (C.v 3 0 - C.v 0 0) * ((C.v 1 1 - C.v 0 1) * (C.v 2 2 - C.v 0 2) - (C.v 1 2 - C.v 0 2) * (C.v 2 1 - C.v 0 1)) := ⟨_, rfl⟩
  have hDne : D ≠ 0 := by
    rw [hDdef]; intro h0; apply h; simp only [det, Cell.J]; linear_combination h0
  obtain ⟨q, hqe, hq0, ux, uy, uz, e0, e1, e2, e3⟩ := tet_core
    (C.v 1 0 - C.v 0 0) (C.v 1 1 - C.v 0 1) (C.v 1 2 - C.v 0 2)
    (C.v 2 0 - C.v 0 0) (C.v 2 1 - C.v 0 1) (C.v 2 2 - C.v 0 2)
    (C.v 3 0 - C.v 0 0) (C.v 3 1 - C.v 0 1) (C.v 3 2 - C.v 0 2)
    (√((C.v 3 0 - C.v 2 0) ^ 2 + (C.v 3 1 - C.v 2 1) ^ 2 + (C.v 3 2 - C.v 2 2) ^ 2))
    (√((C.v 3 0 - C.v 1 0) ^ 2 + (C.v 3 1 - C.v 1 1) ^ 2 + (C.v 3 2 - C.v 1 2) ^ 2))
    (√((C.v 2 0 - C.v 1 0) ^ 2 + (C.v 2 1 - C.v 1 1) ^ 2 + (C.v 2 2 - C.v 1 2) ^ 2))
    (√((C.v 3 0 - C.v 0 0) ^ 2 + (C.v 3 1 - C.v 0 1) ^ 2 + (C.v 3 2 - C.v 0 2) ^ 2))
    (√((C.v 2 0 - C.v 0 0) ^ 2 + (C.v 2 1 - C.v 0 1) ^ 2 + (C.v 2 2 - C.v 0 2) ^ 2))
    (√((C.v 1 0 - C.v 0 0) ^ 2 + (C.v 1 1 - C.v 0 1) ^ 2 + (C.v 1 2 - C.v 0 2) ^ 2))
    (by rw [Real.sq_sqrt (by positivity)]) (by rw [Real.sq_sqrt (by positivity)]) (by rw [Real.sq_sqrt (by positivity)])
    (by rw [Real.sq_sqrt (by positivity)]; ring) (by rw [Real.sq_sqrt (by positivity)]; ring) (by rw [Real.sq_sqrt (by positivity)]; ring)
    D hDdef hDne
  -- the lowered expression is √q / |D|
  have hval : val C circumradius [] = √q / |D| := by
    rw [hqe, hDdef]
    c07_eval [circumradius, hC]
    simp only [← sq]
    congr 1
    · congr 1; ring
    · congr 1; ring
  have hsq : val C circumradius [] ^ 2 = q / D ^ 2 := by
    rw [hval, div_pow, Real.sq_sqrt hq0, sq_abs]
  refine ⟨by rw [hval]; positivity, C.v 0 0 + ux, C.v 0 1 + uy, C.v 0 2 + uz, ?_⟩
  rw [hsq]
  simp only [List.mem_cons, List.mem_nil_iff, or_false, forall_eq_or_imp, forall_eq]
  refine ⟨?_, ?_, ?_, ?_⟩
  · linear_combination e0
  · linear_combination e1
  · linear_combination e2
  · linear_combination e3

noncomputable def len (C : Cell) (a b : Nat) : ℝ := √(len2 C a b)

/-- **min / max cell edge length and cell diameter**: the shortest / longest of the six edges -/
theorem C07_tet3_min_edge (C : Cell) (hC : C.tdim = 3) :
    val C minCellEdgeLength [] =
      min (min (min (min (min (len C 2 3) (len C 1 3)) (len C 1 2)) (len C 0 3)) (len C 0 2)) (len C 0 1) := by
  c07_eval_mm [minCellEdgeLength, hC, Tri2.ite_lt_eq_min]
  simp only [← sq, Tri2.ite_or_eq_min, len, len2, Real.sqrt_monotone.map_min]

theorem C07_tet3_max_edge (C : Cell) (hC : C.tdim = 3) :
    val C maxCellEdgeLength [] =
      max (max (max (max (max (len C 2 3) (len C 1 3)) (len C 1 2)) (len C 0 3)) (len C 0 2)) (len C 0 1) := by
  c07_eval_mm [maxCellEdgeLength, hC, Tri2.ite_lt_eq_max]
  simp only [← sq, Tri2.ite_or_eq_max, len, len2, Real.sqrt_monotone.map_max]

theorem C07_tet3_diameter (C : Cell) (hC : C.tdim = 3) :
    val C cellDiameter [] =
      max (max (max (max (max (len C 2 3) (len C 1 3)) (len C 1 2)) (len C 0 3)) (len C 0 2)) (len C 0 1) := by
  c07_eval_mm [cellDiameter, hC, Tri2.ite_lt_eq_max]
  simp only [← sq, Tri2.ite_or_eq_max, len, len2, Real.sqrt_monotone.map_max]

/-- facet edge lengths: min / max over the three edge vectors of the facet (supplied as `FacetEdgeVectors`) -/
theorem C07_tet3_facet_edges (C : Cell) :
    val C minFacetEdgeLength [] = min (min (√(C.fev 0 0 ^ 2 + C.fev 0 1 ^ 2 + C.fev 0 2 ^ 2)) (√(C.fev 1 0 ^ 2 + C.fev 1 1 ^ 2 + C.fev 1 2 ^ 2)))
        (√(C.fev 2 0 ^ 2 + C.fev 2 1 ^ 2 + C.fev 2 2 ^ 2)) ∧
    val C maxFacetEdgeLength [] = max (max (√(C.fev 0 0 ^ 2 + C.fev 0 1 ^ 2 + C.fev 0 2 ^ 2)) (√(C.fev 1 0 ^ 2 + C.fev 1 1 ^ 2 + C.fev 1 2 ^ 2)))
        (√(C.fev 2 0 ^ 2 + C.fev 2 1 ^ 2 + C.fev 2 2 ^ 2)) := by
  c07_eval_mm [minFacetEdgeLength, maxFacetEdgeLength, Tri2.ite_lt_eq_min, Tri2.ite_lt_eq_max]
  simp only [← sq, Tri2.ite_or_eq_min, Tri2.ite_or_eq_max, Real.sqrt_monotone.map_min, Real.sqrt_monotone.map_max, and_self]

/-- facet area = |(J·t₀) × (J·t₁)| / 2 for the two reference facet tangents t₀, t₁ (columns of the reference facet Jacobian) -/
theorem C07_tet3_facet_area (C : Cell) (hC : C.tdim = 3) :
    let f := fun i j => C06.S 3 (fun k => C.J i k * C.rfj k j)
    val C facetArea [] = √((f 1 0 * f 2 1 - f 2 0 * f 1 1) ^ 2 + (f 2 0 * f 0 1 - f 0 0 * f 2 1) ^ 2 + (f 0 0 * f 1 1 - f 1 0 * f 0 1) ^ 2) / 2 := by
  c07_eval [facetArea, hC]
  simp only [← sq, abs_of_nonneg (Real.sqrt_nonneg _)]
  rw [inv_mul_eq_div]; congr 2; ring

end Tet3
end UflVerif.C07
