/-
C20  Type dispatch stays valid when new expression types are registered later.

Model: `UflVerif.Dispatch` (Model/Dispatch.lean): the per-class handler-table cache of
MultiFunction / Transformer as a state machine.  Histories are arbitrary lists of operations
(no bound on length, number of types or classes).
-/
import UflVerif.Model.Dispatch

namespace UflVerif.C20
open UflVerif.Dispatch

def WFAlg (a : Alg) : Prop := "ufl_type" ∈ a.defined
def WFMro (m : Mro) : Prop := "ufl_type" ∈ m

/-- every cached table is the correct table for the types that existed when it was built -/
def Inv (algs : List Alg) (s : St) : Prop :=
  ∀ a tbl, cacheGet s.cache a = some tbl →
    ∃ alg, algs[a]? = some alg ∧ tbl.length ≤ s.types.length ∧ tbl = buildTable alg (s.types.take tbl.length)

theorem buildTable_length (a : Alg) (ts : List Mro) : (buildTable a ts).length = ts.length := by
  simp [buildTable]

theorem cacheGet_set (c : List (Nat × List (Option String))) (a a' : Nat) (t : List (Option String)) :
    cacheGet (cacheSet c a t) a' = if a' = a then some t else cacheGet c a' := by
  unfold cacheGet cacheSet
  by_cases h : a' = a
  · subst h; simp
  · have h1 : (a == a') = false := by simp; omega
    simp only [List.find?_cons, h1, h, ↓reduceIte]
    have : List.find? (fun p => p.1 == a') (List.filter (fun p => p.1 != a) c) = List.find? (fun p => p.1 == a') c := by
      rw [List.find?_filter]
      congr 1
      funext p
      by_cases hp : p.1 = a'
      · have : p.1 ≠ a := by omega
        simp [hp]; omega
      · simp [hp]
    rw [this]

theorem resolve_some (a : Alg) (m : Mro) (ha : WFAlg a) (hm : WFMro m) : ∃ h, resolve a.defined m = some h := by
  unfold resolve
  cases hf : m.find? (fun h => a.defined.contains h) with
  | some h => exact ⟨h, rfl⟩
  | none =>
    rw [List.find?_eq_none] at hf
    have := hf "ufl_type" hm
    simp only [List.contains_iff_mem] at this
    exact absurd (show "ufl_type" ∈ a.defined from ha) (by simpa using this)

theorem buildTable_no_none (a : Alg) (ts : List Mro) (ha : WFAlg a) (hts : ∀ m ∈ ts, WFMro m) :
    (buildTable a ts).contains none = false := by
  rw [Bool.eq_false_iff]
  intro h
  simp only [buildTable, List.contains_iff_mem, List.mem_map] at h
  obtain ⟨m, hm, he⟩ := h
  obtain ⟨x, hx⟩ := resolve_some a m ha (hts m hm)
  rw [hx] at he; cases he

/-- instantiating always yields the *current* table, and keeps the invariant -/
theorem instantiate_spec (algs : List Alg) (s : St) (a : Nat) (alg : Alg) (ha : algs[a]? = some alg)
    (hinv : Inv algs s) :
    ∃ s', instantiate algs s a = some (s', buildTable alg s.types) ∧ Inv algs s' ∧ s'.types = s.types := by
  unfold instantiate
  simp only [ha]
  have rebuild : Inv algs { s with cache := cacheSet s.cache a (buildTable alg s.types) } := by
    intro a' tbl h
    simp only [cacheGet_set] at h
    split at h
    · rename_i e; subst e
      simp only [Option.some.injEq] at h; subst h
      exact ⟨alg, ha, by simp [buildTable_length], by simp [buildTable_length]⟩
    · exact hinv a' tbl h
  cases hc : cacheGet s.cache a with
  | none => exact ⟨_, rfl, rebuild, rfl⟩
  | some tbl =>
    simp only
    split
    · exact ⟨_, rfl, rebuild, rfl⟩
    · rename_i hlen
      obtain ⟨alg', ha', _, htbl⟩ := hinv a tbl hc
      rw [ha] at ha'; cases ha'
      have : tbl.length = s.types.length := by simpa using hlen
      rw [this, List.take_length] at htbl
      exact ⟨s, by rw [htbl], hinv, rfl⟩

theorem step_inv (algs : List Alg) (s : St) (o : Op) (hinv : Inv algs s) : Inv algs (step algs s o).1 := by
  cases o with
  | reg t =>
    intro a tbl h
    obtain ⟨alg, ha, hl, ht⟩ := hinv a tbl h
    refine ⟨alg, ha, ?_, ?_⟩
    · simp only [step, stepWith, List.length_append, List.length_cons, List.length_nil]; omega
    · simp only [step, stepWith]
      rw [List.take_append_of_le_length hl]; exact ht
  | inst a =>
    simp only [step, stepWith]
    cases ha : algs[a]? with
    | none => simp [instantiate, ha]; exact hinv
    | some alg =>
      obtain ⟨s', hs, hi, _⟩ := instantiate_spec algs s a alg ha hinv
      rw [hs]; simp only; split <;> exact hi
  | apply a t =>
    simp only [step, stepWith]
    cases ha : algs[a]? with
    | none => simp [instantiate, ha]; exact hinv
    | some alg =>
      obtain ⟨s', hs, hi, _⟩ := instantiate_spec algs s a alg ha hinv
      rw [hs]; simp only
      split
      · exact hi
      · split <;> exact hi

theorem instantiate_types (algs : List Alg) (s s' : St) (a : Nat) (tbl : List (Option String))
    (h : instantiate algs s a = some (s', tbl)) : s'.types = s.types := by
  unfold instantiate at h
  cases ha : algs[a]? with
  | none => simp [ha] at h
  | some alg =>
    simp only [ha] at h
    cases hc : cacheGet s.cache a with
    | none => simp only [hc, Option.some.injEq, Prod.mk.injEq] at h; rw [← h.1]
    | some t =>
      simp only [hc] at h
      split at h <;> simp only [Option.some.injEq, Prod.mk.injEq] at h <;> rw [← h.1]

theorem step_types (algs : List Alg) (s : St) (o : Op) :
    (step algs s o).1.types = match o with | .reg t => s.types ++ [t] | _ => s.types := by
  cases o with
  | reg t => rfl
  | inst a =>
    simp only [step, stepWith]
    cases h : instantiate algs s a with
    | none => rfl
    | some p =>
      obtain ⟨s', tbl⟩ := p
      have := instantiate_types algs s s' a tbl h
      simp only; split <;> exact this
  | apply a t =>
    simp only [step, stepWith]
    cases h : instantiate algs s a with
    | none => rfl
    | some p =>
      obtain ⟨s', tbl⟩ := p
      have := instantiate_types algs s s' a tbl h
      simp only; split
      · exact this
      · split <;> exact this

theorem run_inv (algs : List Alg) (ops : List Op) (s : St) (hinv : Inv algs s) : Inv algs (run algs s ops) := by
  induction ops generalizing s with
  | nil => exact hinv
  | cons o os ih => exact ih _ (step_inv algs s o hinv)

theorem run_types_wf (algs : List Alg) (ops : List Op) (s : St) (hs : ∀ m ∈ s.types, WFMro m)
    (hops : ∀ t, Op.reg t ∈ ops → WFMro t) : ∀ m ∈ (run algs s ops).types, WFMro m := by
  induction ops generalizing s with
  | nil => exact hs
  | cons o os ih =>
    apply ih
    · intro m hm
      rw [step_types] at hm
      cases o with
      | reg t =>
        simp only [List.mem_append, List.mem_singleton] at hm
        cases hm with
        | inl h => exact hs m h
        | inr h => rw [h]; exact hops t (by simp)
      | inst a => exact hs m hm
      | apply a t => exact hs m hm
    · intro t ht; exact hops t (by simp [ht])

/-- In a state satisfying the invariant, applying class `a` to an object of registered type `t`
    dispatches to the handler of the nearest ancestor of `t` that `a` defines. -/
theorem apply_spec (algs : List Alg) (s : St) (a t : Nat) (alg : Alg) (m : Mro)
    (ha : algs[a]? = some alg) (hwa : WFAlg alg) (ht : s.types[t]? = some m)
    (hts : ∀ m ∈ s.types, WFMro m) (hinv : Inv algs s) :
    ∃ h, resolve alg.defined m = some h ∧ (step algs s (.apply a t)).2 = .handler h := by
  obtain ⟨s', hs, _, _⟩ := instantiate_spec algs s a alg ha hinv
  have hm : WFMro m := hts m (List.mem_of_getElem? ht)
  obtain ⟨h, hh⟩ := resolve_some alg m hwa hm
  refine ⟨h, hh, ?_⟩
  simp only [step, stepWith, hs, buildTable_no_none alg s.types hwa hts, Bool.false_eq_true, ↓reduceIte]
  have : (buildTable alg s.types)[t]? = some (some h) := by
    simp [buildTable, List.getElem?_map, ht, hh]
  rw [this]

def init (types : List Mro) : St := { types := types, cache := [] }

theorem init_inv (algs : List Alg) (types : List Mro) : Inv algs (init types) := by
  intro a tbl h; simp [init, cacheGet] at h

/-- **Totality**: after *any* history of registrations, instantiations and applications, every
    well-formed algorithm class dispatches every registered type to a handler — the one of the
    nearest ancestor type that defines one. -/
theorem C20_total (algs : List Alg) (types : List Mro) (ops : List Op)
    (hty : ∀ m ∈ types, WFMro m) (hops : ∀ t, Op.reg t ∈ ops → WFMro t)
    (a t : Nat) (alg : Alg) (m : Mro) (ha : algs[a]? = some alg) (hwa : WFAlg alg)
    (ht : (run algs (init types) ops).types[t]? = some m) :
    ∃ h, resolve alg.defined m = some h ∧
      (step algs (run algs (init types) ops) (.apply a t)).2 = .handler h :=
  apply_spec algs _ a t alg m ha hwa ht
    (run_types_wf algs ops (init types) hty hops) (run_inv algs ops _ (init_inv algs types))

/-- **History independence**: the result of applying class `a` to type `t` is the same after any two
    histories in which `t` denotes the same type — in particular it does not depend on whether the
    class was instantiated before the type was registered. -/
theorem C20_history_independent (algs : List Alg) (types : List Mro) (ops₁ ops₂ : List Op)
    (hty : ∀ m ∈ types, WFMro m) (h1 : ∀ t, Op.reg t ∈ ops₁ → WFMro t) (h2 : ∀ t, Op.reg t ∈ ops₂ → WFMro t)
    (a t₁ t₂ : Nat) (alg : Alg) (m : Mro) (ha : algs[a]? = some alg) (hwa : WFAlg alg)
    (ht1 : (run algs (init types) ops₁).types[t₁]? = some m)
    (ht2 : (run algs (init types) ops₂).types[t₂]? = some m) :
    (step algs (run algs (init types) ops₁) (.apply a t₁)).2 =
    (step algs (run algs (init types) ops₂) (.apply a t₂)).2 := by
  obtain ⟨x, hx, e1⟩ := C20_total algs types ops₁ hty h1 a t₁ alg m ha hwa ht1
  obtain ⟨y, hy, e2⟩ := C20_total algs types ops₂ hty h2 a t₂ alg m ha hwa ht2
  rw [hx] at hy; cases hy
  rw [e1, e2]

/-- the invariant used at every use of a cached table: its length is the number of types -/
theorem C20_cache_current (algs : List Alg) (types : List Mro) (ops : List Op) (a : Nat) (alg : Alg)
    (ha : algs[a]? = some alg) :
    ∃ s', instantiate algs (run algs (init types) ops) a = some (s', buildTable alg (run algs (init types) ops).types) :=
  let ⟨s', h, _, _⟩ := instantiate_spec algs _ a alg ha (run_inv algs ops _ (init_inv algs types))
  ⟨s', h⟩

/-! ### the defect that was repaired, as a 3-step history -/
def exAlgs : List Alg := [{ name := "A", defined := ["expr", "ufl_type"] }]
def exTypes : List Mro := [["sum", "operator", "expr", "ufl_type"]]
def exNew : Mro := ["new_op", "operator", "expr", "ufl_type"]

/-- before the repair: instantiate A, register a type, apply A to it ⇒ IndexError;
    without the first instantiation the same application dispatches to `expr`. -/
theorem C20_old_cache_counterexample :
    let s₁ := (stepOld exAlgs (stepOld exAlgs (init exTypes) (.inst 0)).1 (.reg exNew)).1
    let s₂ := (stepOld exAlgs (init exTypes) (.reg exNew)).1
    (stepOld exAlgs s₁ (.apply 0 1)).2 = .indexError ∧ (stepOld exAlgs s₂ (.apply 0 1)).2 = .handler "expr" := by
  decide

/-- non-vacuity: the same history on the repaired model dispatches to `expr`. -/
example : (step exAlgs (run exAlgs (init exTypes) [.inst 0, .reg exNew]) (.apply 0 1)).2 = .handler "expr" := by decide

end UflVerif.C20
