/-
C22  Block extraction partitions mixed forms.

  "For forms on mixed elements or mixed function spaces, the blocks returned by extract_blocks sum to
   the original form's value and each block (i, j) depends only on the i-th test and j-th trial
   sub-function."

Model (Model/FormSplit.lean, compared tree-for-tree with /repo on every run): `fsG` = `FormSplitter`
(`map_expr_dag` with the handlers argument / indexed / restricted / reuse_if_untouched), `splitFormFS`
= `FormSplitter.split`, `extractBlocks` = the loops of `extract_blocks`.  Each exists in two variants:
the code as it stands (`fx = fxB = false`) and the code with the two repairs proposed in
fix_C22_1.diff / fix_C22_2.diff (`true`).  The theorems speak about the model over the plain
constructor layer (`plainRb`; `fsT` is its total form, `C22_model_plain`); that the real constructors
do not change values is C05.

What is proved, for every expression / form of any size:
  * `C22_block_value`: block (i, j) of an integrand has the value of the integrand under the
    valuation in which every argument is replaced by its image in that block (zero padded i-th / j-th
    sub-function) — the splitter is a substitution, through restrictions, variables, conditions,
    index notation, and the `indexed` shortcut; `C22_block_shape_fi`;
  * `C22_support`: hence a block depends on the arguments only through the selected sub-functions;
    `C22_support_syntactic`, `C22_image_entries`, `C22_support_mfs`: the block mentions nothing but the
    selected sub-argument / the arguments with part i and j (syntactically);
  * `C22_sum`, `C22_sum_linear`: for integrands linear in the test (and trial) arguments the n x m blocks
    sum to the integrand under the assembled valuation (each mixed argument = the sum of its zero padded
    sub-functions); `C22_sum_mfs`: on a `MixedFunctionSpace` that valuation is the original one;
  * what `extract_blocks` returns (forms = lists of keyed integrals, value = weighted sum of integrand values
    at an arbitrary valuation): `C22_extract_blocks_mfs`, `C22_extract_blocks_mfs_linear` (mixed function space,
    n x n blocks / n blocks, the dropped ones are zero; hold of the code as it stands), `C22_extract_blocks_bilinear_fixed`,
    `C22_extract_blocks_linear_fixed` (mixed elements, repaired code: unconditional),
    `C22_extract_blocks_bilinear_partial`, `C22_extract_blocks_linear_partial` (mixed elements, the code as
    it stands, with the side conditions that fix_C22_1.diff removes), `C22_extract_blocks_bilinear_current`,
    `C22_extract_blocks_linear_current_value` (what the code as it stands returns in general).
The full statement
    "for every linear / bilinear form F on a mixed space, the blocks of extract_blocks(F) sum to F and block
     (i, j) has the value of F at the zero-padded i-th test / j-th trial sub-function"
is FALSE of the code as it stands:
  * `C22_extract_blocks_linear_counterexample` (all-blocks call on a linear `MixedElement` form returns
    n copies of every block), `C22_extract_blocks_rect_counterexample` (trial space with more
    sub-elements than the test space), `C22_indexed_shortcut_counterexample` (all-fixed `Indexed` of a
    rank-2 list tensor); each is replayed on /repo by harness/props/c22.py.
Gradients of `MixedElement` arguments: the splitter turns `grad(v)` into `grad([a[0], a[1], 0, ..])`, which the
plain semantics `eval` (grad on chains `grad^k(terminal)` only) gives no meaning.  Section 3b extends the semantics by the
componentwise gradient of tensors of components (`evalX`, Sem/SplitGrad.lean; `C22_evalX_conservative`: it is `eval` on
well-formed expressions) and proves the same theorems without the restriction: `C22_block_value_grad`, `C22_sum_grad`,
`C22_sum_linear_grad`, `C22_extract_blocks_bilinear_fixed_grad`, `C22_extract_blocks_linear_fixed_grad`,
`C22_extract_blocks_bilinear_current_grad`, `C22_extract_blocks_bilinear_partial_grad` (blocks read with `evalX`).
-/
import Mathlib.Tactic.Ring
import UflVerif.Sem.SplitValue
import UflVerif.Sem.SplitSupport
import UflVerif.Sem.SplitGrad
import UflVerif.Sem.Linear

namespace UflVerif.C22
open UflVerif Expr Finset

/-! ## 1. the value of a block (any semiring-like `K`: no algebraic law is used) -/

section value
variable {K : Type} [Add K] [Mul K] [Sub K] [Neg K] [Div K] [Zero K] [One K] [IntCast K] [NatCast K]

/-- **C22 (the theorems speak about the model).**  Whenever the model of `FormSplitter` over the plain
    constructor layer returns, it returns `fsT`. -/
theorem C22_model_plain (fx : Bool) (cfg : SplitCfg) (e r : Expr) (h : fsG fx plainRb cfg e = some r) : r = fsT fx cfg e :=
  fsG_plain fx cfg e r h

/-- **C22 (block value).**  For every well-formed integrand `e` (any size), every block selection
    `cfg.idx`, valuation, side, index environment and component: the split integrand has the value of `e`
    under the valuation in which each listed argument takes the value of its image in the block
    (`splitArgT`: the zero-padded list tensor of the selected sub-argument, the argument itself, or zero).
    `Adm` collects the side conditions: the arguments of `e` are listed in `A` under their keys and have the
    flattened shape of their mixed element; a mixed-element argument does not occur under `grad` (the
    derivative of the list tensor is outside the semantics; arguments of a `MixedFunctionSpace` do);
    and — for the code as it stands (`fx = false`) only — no all-fixed `Indexed` with other than one
    index sits on an operand that becomes a list tensor. -/
theorem C22_block_value (ρ : Env K) (fx : Bool) (cfg : SplitCfg) (A : List TermData) (ι₀ : IdxEnv) (side : Side) (ι : IdxEnv)
    (e : Expr) (c : List Nat) (hw : WF e = true) (ha : Adm none fx cfg A e = true) (hc : c.length = (shape e).length) :
    eval ρ side ι (fsT fx cfg e) c = eval (imgEnv ρ cfg A ι₀) side ι e c :=
  (block_aux ρ fx cfg A ι₀).1 side ι e c hw ha hc

/-- the same for conditions -/
theorem C22_block_value_cond (ρ : Env K) (fx : Bool) (cfg : SplitCfg) (A : List TermData) (ι₀ : IdxEnv) (side : Side) (ι : IdxEnv)
    (p : Expr) (hw : WFC p = true) (ha : Adm none fx cfg A p = true) :
    evalB ρ side ι (fsT fx cfg p) = evalB (imgEnv ρ cfg A ι₀) side ι p :=
  (block_aux ρ fx cfg A ι₀).2.1 side ι p hw ha

/-- a block can stand wherever the integrand stood: same shape, same free indices -/
theorem C22_block_shape_fi (fx : Bool) (cfg : SplitCfg) (A : List TermData) (e : Expr) (hw : WF e = true) (ha : Adm none fx cfg A e = true) :
    shape (fsT fx cfg e) = shape e ∧ fi (fsT fx cfg e) = fi e :=
  ⟨((preserve_aux none fx cfg A).1 e hw ha).1, ((preserve_aux none fx cfg A).1 e hw ha).2.1⟩

/-- two valuations that give the same values to everything but the arguments, and the same values to the
    images of the arguments in the selected block -/
structure SameSelected (cfg : SplitCfg) (A : List TermData) (ι₀ : IdxEnv) (ρ ρ' : Env K) : Prop where
  fn : ρ.fn = ρ'.fn
  fn2 : ρ.fn2 = ρ'.fn2
  abs : ρ.abs = ρ'.abs
  conj : ρ.conj = ρ'.conj
  re : ρ.re = ρ'.re
  im : ρ.im = ρ'.im
  i : ρ.i = ρ'.i
  lt : ρ.lt = ρ'.lt
  eq : ρ.eq = ρ'.eq
  others : ∀ key, argOf A key = none → (∀ s c, ρ.term s key c = ρ'.term s key c) ∧ (∀ s c ds, ρ.jet s key c ds = ρ'.jet s key c ds)
  image : ∀ key d, argOf A key = some d → ∀ s c, eval ρ s ι₀ (splitArgT cfg d) c = eval ρ' s ι₀ (splitArgT cfg d) c
  imageJet : ∀ key d, argOf A key = some d → (∃ x, splitArgT cfg d = .term x) → ∀ s c ds, ρ.jet s key c ds = ρ'.jet s key c ds

theorem imgEnv_congr (cfg : SplitCfg) (A : List TermData) (ι₀ : IdxEnv) (ρ ρ' : Env K) (h : SameSelected cfg A ι₀ ρ ρ') :
    imgEnv ρ cfg A ι₀ = imgEnv ρ' cfg A ι₀ := by
  obtain ⟨h1, h2, h3, h4, h5, h6, h7, h8, h9, ho, hi, hj⟩ := h
  cases ρ; cases ρ'
  simp only at h1 h2 h3 h4 h5 h6 h7 h8 h9
  subst h1 h2 h3 h4 h5 h6 h7 h8 h9
  simp only [imgEnv, Env.mk.injEq, and_true]
  constructor
  · funext s key c
    cases hk : argOf A key with
    | none => exact (ho key hk).1 s c
    | some d => exact hi key d hk s c
  · funext s key c ds
    cases hk : argOf A key with
    | none => exact (ho key hk).2 s c ds
    | some d =>
      simp only
      split
      · rename_i x hx; exact hj key d hk ⟨x, hx⟩ s c ds
      · rfl

/-- **C22 (support).**  The value of block (i, j) depends on the valuation of the arguments only through
    the images of the arguments in that block, i.e. through the i-th test and j-th trial sub-function:
    two valuations that agree on those (and on everything that is not an argument) give the block the
    same value — whatever they say about every other sub-function. -/
theorem C22_support (ρ ρ' : Env K) (fx : Bool) (cfg : SplitCfg) (A : List TermData) (ι₀ : IdxEnv) (side : Side) (ι : IdxEnv)
    (e : Expr) (c : List Nat) (hw : WF e = true) (ha : Adm none fx cfg A e = true) (hc : c.length = (shape e).length)
    (h : SameSelected cfg A ι₀ ρ ρ') :
    eval ρ side ι (fsT fx cfg e) c = eval ρ' side ι (fsT fx cfg e) c := by
  rw [C22_block_value ρ fx cfg A ι₀ side ι e c hw ha hc, C22_block_value ρ' fx cfg A ι₀ side ι e c hw ha hc,
      imgEnv_congr cfg A ι₀ ρ ρ' h]

/-- what an entry of an image mentions: nothing, or one terminal (key, fixed component) -/
def entryRef : Expr → Option (String × List Nat)
  | .term d => some (d.key, [])
  | .op .indexed _ [.term d, .mi is] => (fixedAll is).map (fun vs => (d.key, vs))
  | _ => none

/-- **C22 (support, syntactically; `replace_argument = True`).**  Every entry of the list tensor that
    replaces a mixed-element argument is `Zero()` or a component of the sub-argument of the selected
    sub-element: no other sub-function (and not the mixed argument itself) is mentioned. -/
theorem C22_image_entries (d : TermData) (sel : Option Nat) :
    ∀ (subs : List SubArg) (i counter : Nat) (x : Expr), x ∈ argEntries true d sel subs i counter →
      x = zeroS ∨ ∃ (k : Nat) (sub : SubArg) (c : List Nat), sel = some (i + k) ∧ subs[k]? = some sub ∧ entryRef x = some (sub.key, c)
  | [], _, _, x, h => by simp [argEntries] at h
  | sub :: rest, i, counter, x, h => by
    simp only [argEntries, List.mem_append] at h
    rcases h with h | h
    · unfold subEntries at h
      simp only at h
      split at h
      · simp only [List.mem_map] at h
        obtain ⟨_, _, rfl⟩ := h
        exact Or.inl rfl
      · rename_i hsel
        simp only [Bool.not_eq_true, Bool.not_eq_false', beq_iff_eq] at hsel
        simp only [↓reduceIte, List.mem_map] at h
        obtain ⟨j, _, rfl⟩ := h
        right
        refine ⟨0, sub, j, by simpa using hsel, by simp, ?_⟩
        split
        · rename_i hj
          simp only [List.isEmpty_iff] at hj
          simp [entryRef, hj]
        · simp [entryRef, fixedAll_map_fixed]
    · rcases C22_image_entries d sel rest (i + 1) _ x h with h | ⟨k, s, c, h1, h2, h3⟩
      · exact Or.inl h
      · exact Or.inr ⟨k + 1, s, c, by rw [h1]; congr 1; omega, by simpa using h2, h3⟩

/-- **C22 (support, syntactically).**  Every terminal of block (i, j) is a terminal of the integrand that is not an
    argument, or a terminal of the image of one of its arguments in that block: the splitter introduces nothing
    else (through the `indexed` shortcut, the dropped restrictions and the constructor layer `plainRb`). -/
theorem C22_support_syntactic (fx : Bool) (cfg : SplitCfg) (e : Expr) (t : TermData) (h : t ∈ terms (fsT fx cfg e)) :
    (t ∈ terms e ∧ (t.cls == "Argument") = false) ∨
      ∃ d0 ∈ terms e, (d0.cls == "Argument") = true ∧ t ∈ terms (splitArgT cfg d0) :=
  terms_fsT fx cfg e t h

end value

/-! ## 2. the blocks sum to the form (a field `K`) -/

section sum
variable {K : Type} [Field K]

/-- the splitter configured for block (i, j): `self.idx = [ix, iy]` -/
def cfgAt (cfg : SplitCfg) (i j : Option Nat) : SplitCfg := { cfg with idx := [i, j] }

/-- keys of the listed arguments with number `n` (0: test function, 1: trial function) -/
def argP (A : List TermData) (n : Int) : KeyP := fun key =>
  match argOf A key with
  | some d => d.count == n
  | none => false

/-- the values (derivatives) the test arguments take in the blocks of row `i`: their images -/
def rowT (ρ : Env K) (cfg : SplitCfg) (A : List TermData) (ι₀ : IdxEnv) (i : Nat) : Side → String → List Nat → K :=
  fun s key c => match argOf A key with
    | some d => eval ρ s ι₀ (splitArgT (cfgAt cfg (some i) none) d) c
    | none => 0
def rowJ (ρ : Env K) (cfg : SplitCfg) (A : List TermData) (i : Nat) : Side → String → List Nat → List Nat → K :=
  fun s key c ds => match argOf A key with
    | some d => (match splitArgT (cfgAt cfg (some i) none) d with
        | .term _ => ρ.jet s key c ds
        | _ => 0)
    | none => 0
/-- the values the trial arguments take in the blocks of column `j` -/
def colT (ρ : Env K) (cfg : SplitCfg) (A : List TermData) (ι₀ : IdxEnv) (j : Nat) : Side → String → List Nat → K :=
  fun s key c => match argOf A key with
    | some d => eval ρ s ι₀ (splitArgT (cfgAt cfg none (some j)) d) c
    | none => 0
def colJ (ρ : Env K) (cfg : SplitCfg) (A : List TermData) (j : Nat) : Side → String → List Nat → List Nat → K :=
  fun s key c ds => match argOf A key with
    | some d => (match splitArgT (cfgAt cfg none (some j)) d with
        | .term _ => ρ.jet s key c ds
        | _ => 0)
    | none => 0

/-- **the assembled valuation**: every test argument is the sum over the `n` rows of its zero-padded
    sub-functions, every trial argument the sum over the `m` columns — the identification of a mixed
    argument with the concatenation of its sub-arguments -/
def asmEnv (ρ : Env K) (cfg : SplitCfg) (A : List TermData) (ι₀ : IdxEnv) (n m : Nat) : Env K :=
  withP (withP ρ (argP A 1) (fun s k c => ∑ j ∈ range m, colT ρ cfg A ι₀ j s k c) (fun s k c ds => ∑ j ∈ range m, colJ ρ cfg A j s k c ds))
    (argP A 0) (fun s k c => ∑ i ∈ range n, rowT ρ cfg A ι₀ i s k c) (fun s k c ds => ∑ i ∈ range n, rowJ ρ cfg A i s k c ds)

theorem splitArgT_row (cfg : SplitCfg) (i : Nat) (j : Option Nat) (d : TermData) (h : d.count = 0) :
    splitArgT (cfgAt cfg (some i) j) d = splitArgT (cfgAt cfg (some i) none) d := by
  simp [splitArgT, cfgAt, h, SplitCfg.subsOf]

theorem splitArgT_col (cfg : SplitCfg) (i : Option Nat) (j : Nat) (d : TermData) (h : d.count = 1) :
    splitArgT (cfgAt cfg i (some j)) d = splitArgT (cfgAt cfg none (some j)) d := by
  simp [splitArgT, cfgAt, h, SplitCfg.subsOf]

/-- the arguments listed in `A` are test functions (number 0) or trial functions (number 1) -/
def TwoArgs (A : List TermData) : Prop := ∀ key d, argOf A key = some d → d.count = 0 ∨ d.count = 1

theorem imgEnv_eq (ρ : Env K) (cfg : SplitCfg) (A : List TermData) (ι₀ : IdxEnv) (hA : TwoArgs A) (i j : Nat) :
    imgEnv ρ (cfgAt cfg (some i) (some j)) A ι₀ =
      withP (withP ρ (argP A 0) (rowT ρ cfg A ι₀ i) (rowJ ρ cfg A i)) (argP A 1) (colT ρ cfg A ι₀ j) (colJ ρ cfg A j) := by
  cases ρ
  simp only [imgEnv, withP, Env.mk.injEq, and_true]
  constructor
  · funext s key c
    cases hk : argOf A key with
    | none => simp [argP, hk]
    | some d =>
      rcases hA key d hk with h | h
      · simp [argP, hk, h, rowT, splitArgT_row cfg i (some j) d h]
      · simp [argP, hk, h, colT, splitArgT_col cfg (some i) j d h]
  · funext s key c ds
    cases hk : argOf A key with
    | none => simp [argP, hk]
    | some d =>
      rcases hA key d hk with h | h
      · simp only [argP, hk, h, rowJ, splitArgT_row cfg i (some j) d h]; simp
        generalize splitArgT (cfgAt cfg (some i) none) d = x; cases x <;> rfl
      · simp only [argP, hk, h, colJ, splitArgT_col cfg (some i) j d h]; simp
        generalize splitArgT (cfgAt cfg none (some j)) d = x; cases x <;> rfl

theorem withP_swap (ρ : Env K) (P Q : KeyP) (hd : ∀ key, (P key && Q key) = false)
    (t u : Side → String → List Nat → K) (j k : Side → String → List Nat → List Nat → K) :
    withP (withP ρ P t j) Q u k = withP (withP ρ Q u k) P t j := by
  cases ρ
  simp only [withP, Env.mk.injEq, and_true]
  constructor
  · funext s key c
    have := hd key
    cases hp : P key <;> cases hq : Q key <;> simp_all
  · funext s key c ds
    have := hd key
    cases hp : P key <;> cases hq : Q key <;> simp_all

theorem argP_disjoint (A : List TermData) : ∀ key, (argP A 0 key && argP A 1 key) = false := by
  intro key
  simp only [argP]
  cases argOf A key with
  | none => rfl
  | some d =>
    simp only [Bool.and_eq_false_imp, beq_iff_eq]
    intro h; rw [h]; decide

theorem additive_withP (ρ : Env K) (hρ : AdditiveOps ρ) (P : KeyP) (t : Side → String → List Nat → K)
    (j : Side → String → List Nat → List Nat → K) : AdditiveOps (withP ρ P t j) :=
  ⟨hρ.conj, hρ.re, hρ.im⟩

/-- **C22 (sum, bilinear).**  For every integrand `e` that is linear in the test arguments and linear in the
    trial arguments (`LinIn`, decidable; any size), the `n x m` blocks — each evaluated under the same
    valuation `ρ` — add up to the value of `e` under the assembled valuation, in which every mixed argument
    is the sum of its zero-padded sub-functions. -/
theorem C22_sum (ρ : Env K) (hρ : AdditiveOps ρ) (fx : Bool) (cfg : SplitCfg) (A : List TermData) (hA : TwoArgs A) (ι₀ : IdxEnv)
    (side : Side) (ι : IdxEnv) (e : Expr) (c : List Nat) (n m : Nat)
    (hw : WF e = true) (ha : ∀ i j, Adm none fx (cfgAt cfg (some i) (some j)) A e = true) (hc : c.length = (shape e).length)
    (h0 : LinIn (argP A 0) e = true) (h1 : LinIn (argP A 1) e = true) :
    ∑ i ∈ range n, ∑ j ∈ range m, eval ρ side ι (fsT fx (cfgAt cfg (some i) (some j)) e) c
      = eval (asmEnv ρ cfg A ι₀ n m) side ι e c := by
  have step1 : ∀ i j, eval ρ side ι (fsT fx (cfgAt cfg (some i) (some j)) e) c =
      eval (withP (withP ρ (argP A 0) (rowT ρ cfg A ι₀ i) (rowJ ρ cfg A i)) (argP A 1) (colT ρ cfg A ι₀ j) (colJ ρ cfg A j)) side ι e c := by
    intro i j
    rw [C22_block_value ρ fx _ A ι₀ side ι e c hw (ha i j) hc, imgEnv_eq ρ cfg A ι₀ hA i j]
  simp only [step1]
  have step2 : ∀ i, ∑ j ∈ range m, eval (withP (withP ρ (argP A 0) (rowT ρ cfg A ι₀ i) (rowJ ρ cfg A i)) (argP A 1) (colT ρ cfg A ι₀ j) (colJ ρ cfg A j)) side ι e c
      = eval (withP (withP ρ (argP A 1) (fun s k c => ∑ j ∈ range m, colT ρ cfg A ι₀ j s k c) (fun s k c ds => ∑ j ∈ range m, colJ ρ cfg A j s k c ds))
          (argP A 0) (rowT ρ cfg A ι₀ i) (rowJ ρ cfg A i)) side ι e c := by
    intro i
    rw [eval_sum _ (argP A 1) (additive_withP ρ hρ _ _ _) side ι e c h1 (colT ρ cfg A ι₀) (colJ ρ cfg A) m]
    rw [withP_swap ρ (argP A 0) (argP A 1) (argP_disjoint A)]
  simp only [step2]
  exact eval_sum _ (argP A 0) (additive_withP ρ hρ _ _ _) side ι e c h0 (rowT ρ cfg A ι₀) (rowJ ρ cfg A) n

/-- the arguments listed in `A` are test functions only (linear forms) -/
def OneArg (A : List TermData) : Prop := ∀ key d, argOf A key = some d → d.count = 0

theorem imgEnv_eq1 (ρ : Env K) (cfg : SplitCfg) (A : List TermData) (ι₀ : IdxEnv) (hA : OneArg A) (i : Nat) (j : Option Nat) :
    imgEnv ρ (cfgAt cfg (some i) j) A ι₀ = withP ρ (argP A 0) (rowT ρ cfg A ι₀ i) (rowJ ρ cfg A i) := by
  cases ρ
  simp only [imgEnv, withP, Env.mk.injEq, and_true]
  constructor
  · funext s key c
    cases hk : argOf A key with
    | none => simp [argP, hk]
    | some d => simp [argP, hk, hA key d hk, rowT, splitArgT_row cfg i j d (hA key d hk)]
  · funext s key c ds
    cases hk : argOf A key with
    | none => simp [argP, hk]
    | some d =>
      simp only [argP, hk, hA key d hk, rowJ, splitArgT_row cfg i j d (hA key d hk)]; simp
      generalize splitArgT (cfgAt cfg (some i) none) d = x; cases x <;> rfl

/-- the assembled valuation of a linear form: every test argument is the sum of its zero-padded sub-functions -/
def asmEnv1 (ρ : Env K) (cfg : SplitCfg) (A : List TermData) (ι₀ : IdxEnv) (n : Nat) : Env K :=
  withP ρ (argP A 0) (fun s k c => ∑ i ∈ range n, rowT ρ cfg A ι₀ i s k c) (fun s k c ds => ∑ i ∈ range n, rowJ ρ cfg A i s k c ds)

/-- **C22 (sum, linear).**  The `n` blocks of an integrand that is linear in the test arguments add up to its
    value under the assembled valuation; the column index the splitter is given does not matter. -/
theorem C22_sum_linear (ρ : Env K) (hρ : AdditiveOps ρ) (fx : Bool) (cfg : SplitCfg) (A : List TermData) (hA : OneArg A) (ι₀ : IdxEnv)
    (side : Side) (ι : IdxEnv) (e : Expr) (c : List Nat) (n : Nat) (j : Nat → Option Nat)
    (hw : WF e = true) (ha : ∀ i, Adm none fx (cfgAt cfg (some i) (j i)) A e = true) (hc : c.length = (shape e).length)
    (h0 : LinIn (argP A 0) e = true) :
    ∑ i ∈ range n, eval ρ side ι (fsT fx (cfgAt cfg (some i) (j i)) e) c = eval (asmEnv1 ρ cfg A ι₀ n) side ι e c := by
  have step1 : ∀ i, eval ρ side ι (fsT fx (cfgAt cfg (some i) (j i)) e) c =
      eval (withP ρ (argP A 0) (rowT ρ cfg A ι₀ i) (rowJ ρ cfg A i)) side ι e c := by
    intro i
    rw [C22_block_value ρ fx _ A ι₀ side ι e c hw (ha i) hc, imgEnv_eq1 ρ cfg A ι₀ hA i (j i)]
  simp only [step1]
  exact eval_sum ρ (argP A 0) hρ side ι e c h0 (rowT ρ cfg A ι₀) (rowJ ρ cfg A) n

/-! ### `MixedFunctionSpace`: the assembled valuation is the original one -/

/-- every listed argument is an `Argument` of a `MixedFunctionSpace` found under its own key, a test function
    with part `< n` or a trial function with part `< m` -/
def MFSArgs (A : List TermData) (n m : Nat) : Prop :=
  ∀ key d, argOf A key = some d → d.cls = "Argument" ∧ d.key = key ∧
    ((d.count = 0 ∧ 0 ≤ d.part ∧ d.part < n) ∨ (d.count = 1 ∧ 0 ≤ d.part ∧ d.part < m))

theorem splitArgT_mfs_row (cfg : SplitCfg) (i : Nat) (d : TermData) (h0 : d.count = 0) (hp : 0 ≤ d.part) :
    splitArgT (cfgAt cfg (some i) none) d = if d.part = (i : Int) then .term d else .zero d.shape [] := by
  have : d.part ≠ -1 := by omega
  simp [splitArgT, cfgAt, h0, this]

theorem splitArgT_mfs_col (cfg : SplitCfg) (j : Nat) (d : TermData) (h1 : d.count = 1) (hp : 0 ≤ d.part) :
    splitArgT (cfgAt cfg none (some j)) d = if d.part = (j : Int) then .term d else .zero d.shape [] := by
  have : d.part ≠ -1 := by omega
  simp [splitArgT, cfgAt, h1, this]

theorem sum_ite_part (p : Int) (n : Nat) (x : K) (h0 : 0 ≤ p) (hn : p < n) :
    ∑ i ∈ range n, (if p = (i : Int) then x else 0) = x := by
  obtain ⟨q, rfl⟩ := Int.eq_ofNat_of_zero_le h0
  have hq : q < n := by exact_mod_cast hn
  simp only [Nat.cast_inj]
  rw [Finset.sum_ite_eq]
  simp [hq]

theorem withP_self (ρ : Env K) (P : KeyP) (t : Side → String → List Nat → K) (j : Side → String → List Nat → List Nat → K)
    (ht : ∀ s key c, P key = true → t s key c = ρ.term s key c) (hj : ∀ s key c ds, P key = true → j s key c ds = ρ.jet s key c ds) :
    withP ρ P t j = ρ := by
  cases ρ
  simp only [withP, Env.mk.injEq, and_true]
  constructor
  · funext s key c
    cases hp : P key
    · simp
    · simpa [hp] using ht s key c hp
  · funext s key c ds
    cases hp : P key
    · simp
    · simpa [hp] using hj s key c ds hp

theorem asmEnv_mfs (ρ : Env K) (cfg : SplitCfg) (A : List TermData) (ι₀ : IdxEnv) (n m : Nat) (hA : MFSArgs A n m) :
    asmEnv ρ cfg A ι₀ n m = ρ := by
  unfold asmEnv
  have inner : withP ρ (argP A 1) (fun s k c => ∑ j ∈ range m, colT ρ cfg A ι₀ j s k c) (fun s k c ds => ∑ j ∈ range m, colJ ρ cfg A j s k c ds) = ρ := by
    apply withP_self
    · intro s key c hP
      simp only [argP] at hP
      cases hk : argOf A key with
      | none => simp [hk] at hP
      | some d =>
        simp only [hk, beq_iff_eq] at hP
        obtain ⟨hcls, hkey, h⟩ := hA key d hk
        rcases h with ⟨h0, _, _⟩ | ⟨h1, hp0, hpm⟩
        · rw [h0] at hP; cases hP
        · simp only [colT, hk, splitArgT_mfs_col cfg _ d h1 hp0]
          have : ∀ j : Nat, eval ρ s ι₀ (if d.part = (j : Int) then Expr.term d else Expr.zero d.shape []) c
              = if d.part = (j : Int) then ρ.term s key c else 0 := by
            intro j; split <;> simp [eval, hcls, hkey]
          simp only [this]
          exact sum_ite_part d.part m _ hp0 hpm
    · intro s key c ds hP
      simp only [argP] at hP
      cases hk : argOf A key with
      | none => simp [hk] at hP
      | some d =>
        simp only [hk, beq_iff_eq] at hP
        obtain ⟨hcls, hkey, h⟩ := hA key d hk
        rcases h with ⟨h0, _, _⟩ | ⟨h1, hp0, hpm⟩
        · rw [h0] at hP; cases hP
        · simp only [colJ, hk, splitArgT_mfs_col cfg _ d h1 hp0]
          have : ∀ j : Nat, (match (if d.part = (j : Int) then Expr.term d else Expr.zero d.shape []) with
              | .term _ => ρ.jet s key c ds
              | _ => 0) = if d.part = (j : Int) then ρ.jet s key c ds else 0 := by
            intro j; by_cases hq : d.part = (j : Int) <;> simp [hq]
          simp only [this]
          exact sum_ite_part d.part m _ hp0 hpm
  rw [inner]
  apply withP_self
  · intro s key c hP
    simp only [argP] at hP
    cases hk : argOf A key with
    | none => simp [hk] at hP
    | some d =>
      simp only [hk, beq_iff_eq] at hP
      obtain ⟨hcls, hkey, h⟩ := hA key d hk
      rcases h with ⟨h0, hp0, hpn⟩ | ⟨h1, _, _⟩
      · simp only [rowT, hk, splitArgT_mfs_row cfg _ d h0 hp0]
        have : ∀ i : Nat, eval ρ s ι₀ (if d.part = (i : Int) then Expr.term d else Expr.zero d.shape []) c
            = if d.part = (i : Int) then ρ.term s key c else 0 := by
          intro i; split <;> simp [eval, hcls, hkey]
        simp only [this]
        exact sum_ite_part d.part n _ hp0 hpn
      · rw [h1] at hP; cases hP
  · intro s key c ds hP
    simp only [argP] at hP
    cases hk : argOf A key with
    | none => simp [hk] at hP
    | some d =>
      simp only [hk, beq_iff_eq] at hP
      obtain ⟨hcls, hkey, h⟩ := hA key d hk
      rcases h with ⟨h0, hp0, hpn⟩ | ⟨h1, _, _⟩
      · simp only [rowJ, hk, splitArgT_mfs_row cfg _ d h0 hp0]
        have : ∀ i : Nat, (match (if d.part = (i : Int) then Expr.term d else Expr.zero d.shape []) with
            | .term _ => ρ.jet s key c ds
            | _ => 0) = if d.part = (i : Int) then ρ.jet s key c ds else 0 := by
          intro i; by_cases hq : d.part = (i : Int) <;> simp [hq]
        simp only [this]
        exact sum_ite_part d.part n _ hp0 hpn
      · rw [h1] at hP; cases hP

theorem MFSArgs.two {A : List TermData} {n m : Nat} (h : MFSArgs A n m) : TwoArgs A := by
  intro key d hk
  rcases (h key d hk).2.2 with h | h
  · exact Or.inl h.1
  · exact Or.inr h.1

/-- **C22 (sum, `MixedFunctionSpace`).**  For a bilinear integrand on a mixed function space with `n` test and
    `m` trial parts the `n x m` blocks add up to the integrand itself, under every valuation — gradients of the
    arguments included. -/
theorem C22_sum_mfs (ρ : Env K) (hρ : AdditiveOps ρ) (fx : Bool) (cfg : SplitCfg) (A : List TermData) (n m : Nat) (hA : MFSArgs A n m)
    (ι₀ : IdxEnv) (side : Side) (ι : IdxEnv) (e : Expr) (c : List Nat)
    (hw : WF e = true) (ha : ∀ i j, Adm none fx (cfgAt cfg (some i) (some j)) A e = true) (hc : c.length = (shape e).length)
    (h0 : LinIn (argP A 0) e = true) (h1 : LinIn (argP A 1) e = true) :
    ∑ i ∈ range n, ∑ j ∈ range m, eval ρ side ι (fsT fx (cfgAt cfg (some i) (some j)) e) c = eval ρ side ι e c := by
  rw [C22_sum ρ hρ fx cfg A hA.two ι₀ side ι e c n m hw ha hc h0 h1, asmEnv_mfs ρ cfg A ι₀ n m hA]

/-! ## 3. forms: what `extract_blocks` returns -/

/-- the value of a form at one point valuation, with an arbitrary weight per integral key (integral type,
    domain, subdomain, metadata): what every quadrature rule sums up.  Choosing the indicator of one key
    gives the per-integral statement. -/
def formVal (w : String → K) (ρ : Env K) : Form → K
  | [] => 0
  | I :: rest => w I.key * eval ρ .none (fun _ => 0) I.integrand [] + formVal w ρ rest

mutual
/-- the sum of the values of all blocks of a result of `extract_blocks` (`None` counts as 0) -/
def total (w : String → K) (ρ : Env K) : Blocks → K
  | .form f => formVal w ρ f
  | .none => 0
  | .tup xs => totalL w ρ xs
def totalL (w : String → K) (ρ : Env K) : List Blocks → K
  | [] => 0
  | b :: bs => total w ρ b + totalL w ρ bs
end

/-- the split integrands, weighted: the value of `FormSplitter.split(form, ix, iy)` -/
def splitVal (w : String → K) (ρ : Env K) (fx : Bool) (cfg : SplitCfg) : Form → K
  | [] => 0
  | I :: rest => w I.key * eval ρ .none (fun _ => 0) (fsT fx cfg I.integrand) [] + splitVal w ρ fx cfg rest

theorem mapIntegrands_val (w : String → K) (ρ : Env K) (fx : Bool) (cfg : SplitCfg) :
    ∀ (F F' : Form), mapIntegrands (fsG fx plainRb cfg) F = some F' → formVal w ρ F' = splitVal w ρ fx cfg F
  | [], F', h => by simp only [mapIntegrands, Option.some.injEq] at h; subst h; rfl
  | I :: rest, F', h => by
    simp only [mapIntegrands] at h
    cases he : fsG fx plainRb cfg I.integrand with
    | none => rw [he] at h; cases h
    | some e =>
      cases hr : mapIntegrands (fsG fx plainRb cfg) rest with
      | none => rw [he, hr] at h; cases h
      | some r =>
        rw [he, hr] at h
        simp only at h
        have ih := mapIntegrands_val w ρ fx cfg rest r hr
        have hee := fsG_plain fx cfg I.integrand e he
        split at h
        · rename_i hz
          simp only [Option.some.injEq] at h; subst h
          obtain ⟨sh, f, hzz⟩ := isZero_eq' e hz
          simp only [splitVal, ← hee, hzz, eval, mul_zero, zero_add, ih]
        · simp only [Option.some.injEq] at h; subst h
          simp only [formVal, splitVal, ← hee, ih]

theorem total_blockOf (w : String → K) (ρ : Env K) (F : Form) : total w ρ (blockOf F) = formVal w ρ F := by
  unfold blockOf
  split
  · rename_i h
    simp only [List.isEmpty_iff] at h
    simp [total, h, formVal]
  · simp [total]

theorem tabulateFrom_total (w : String → K) (ρ : Env K) (f : Nat → Option Blocks) (g : Nat → K) :
    ∀ (k s : Nat) (xs : List Blocks), tabulateFrom f s k = some xs →
      (∀ i b, f i = some b → total w ρ b = g i) → totalL w ρ xs = ∑ i ∈ range k, g (s + i)
  | 0, s, xs, h, _ => by simp only [tabulateFrom, Option.some.injEq] at h; subst h; simp [totalL]
  | k + 1, s, xs, h, hg => by
    simp only [tabulateFrom] at h
    cases hb : f s with
    | none => rw [hb] at h; cases h
    | some b =>
      cases hr : tabulateFrom f (s + 1) k with
      | none => rw [hb, hr] at h; cases h
      | some r =>
        rw [hb, hr] at h
        simp only [Option.some.injEq] at h; subst h
        have ih := tabulateFrom_total w ρ f g k (s + 1) r hr hg
        rw [Finset.sum_range_succ', totalL, ih, hg s b hb]
        simp only [Nat.add_zero]
        rw [add_comm]
        congr 1
        apply Finset.sum_congr rfl
        intro i _; congr 1; omega

theorem tabulate_total (w : String → K) (ρ : Env K) (f : Nat → Option Blocks) (g : Nat → K) (n : Nat) (xs : List Blocks)
    (h : tabulate n f = some xs) (hg : ∀ i b, f i = some b → total w ρ b = g i) : totalL w ρ xs = ∑ i ∈ range n, g i := by
  have := tabulateFrom_total w ρ f g n 0 xs h hg
  simpa using this

/-- the value of the `n x m` grid of blocks the loops of `extract_blocks` build -/
theorem grid_total (w : String → K) (ρ : Env K) (fx : Bool) (cfg : SplitCfg) (F : Form) (n m : Nat) (rows : List Blocks)
    (h : tabulate n (fun pi => (tabulate m (fun pj => (splitFormFS fx plainRb cfg (some pi) (some pj) F).map blockOf)).map .tup) = some rows) :
    totalL w ρ rows = ∑ i ∈ range n, ∑ j ∈ range m, splitVal w ρ fx (cfgAt cfg (some i) (some j)) F := by
  apply tabulate_total w ρ _ _ n rows h
  intro i b hb
  simp only [Option.map_eq_some_iff] at hb
  obtain ⟨cols, hc, rfl⟩ := hb
  simp only [total]
  apply tabulate_total w ρ _ _ m cols hc
  intro j b hb
  simp only [Option.map_eq_some_iff] at hb
  obtain ⟨F', hF, rfl⟩ := hb
  rw [total_blockOf]
  exact mapIntegrands_val w ρ fx (cfgAt cfg (some i) (some j)) F F' hF

/-- the value of the column of blocks built for a linear form -/
theorem column_total (w : String → K) (ρ : Env K) (fx : Bool) (cfg : SplitCfg) (F : Form) (n : Nat) (xs : List Blocks)
    (h : tabulate n (fun pi => (splitFormFS fx plainRb cfg (some pi) none F).map blockOf) = some xs) :
    totalL w ρ xs = ∑ i ∈ range n, splitVal w ρ fx (cfgAt cfg (some i) none) F := by
  apply tabulate_total w ρ _ _ n xs h
  intro i b hb
  simp only [Option.map_eq_some_iff] at hb
  obtain ⟨F', hF, rfl⟩ := hb
  rw [total_blockOf]
  exact mapIntegrands_val w ρ fx (cfgAt cfg (some i) none) F F' hF

/-- every integrand of the form is a well-formed scalar, admissible for every block, linear in the test
    arguments and linear in the trial arguments -/
def BilinearForm (fx : Bool) (cfg : SplitCfg) (A : List TermData) (F : Form) : Prop :=
  ∀ I ∈ F, WF I.integrand = true ∧ shape I.integrand = [] ∧ (∀ i j, Adm none fx (cfgAt cfg i j) A I.integrand = true) ∧
    LinIn (argP A 0) I.integrand = true ∧ LinIn (argP A 1) I.integrand = true

def LinearForm (fx : Bool) (cfg : SplitCfg) (A : List TermData) (F : Form) : Prop :=
  ∀ I ∈ F, WF I.integrand = true ∧ shape I.integrand = [] ∧ (∀ i j, Adm none fx (cfgAt cfg i j) A I.integrand = true) ∧
    LinIn (argP A 0) I.integrand = true

theorem splitVal_sum2 (w : String → K) (ρ : Env K) (hρ : AdditiveOps ρ) (fx : Bool) (cfg : SplitCfg) (A : List TermData) (hA : TwoArgs A)
    (ι₀ : IdxEnv) (n m : Nat) : ∀ (F : Form), BilinearForm fx cfg A F →
    ∑ i ∈ range n, ∑ j ∈ range m, splitVal w ρ fx (cfgAt cfg (some i) (some j)) F = formVal w (asmEnv ρ cfg A ι₀ n m) F
  | [], _ => by simp [splitVal, formVal]
  | I :: rest, h => by
    have hI := h I (by simp)
    have ih := splitVal_sum2 w ρ hρ fx cfg A hA ι₀ n m rest (fun J hJ => h J (by simp [hJ]))
    simp only [splitVal, formVal, Finset.sum_add_distrib, ← Finset.mul_sum, ih]
    rw [C22_sum ρ hρ fx cfg A hA ι₀ .none (fun _ => 0) I.integrand [] n m hI.1 (fun i j => hI.2.2.1 (some i) (some j))
      (by simp [hI.2.1]) hI.2.2.2.1 hI.2.2.2.2]

theorem splitVal_sum1 (w : String → K) (ρ : Env K) (hρ : AdditiveOps ρ) (fx : Bool) (cfg : SplitCfg) (A : List TermData) (hA : OneArg A)
    (ι₀ : IdxEnv) (n : Nat) (j : Nat → Option Nat) : ∀ (F : Form), LinearForm fx cfg A F →
    ∑ i ∈ range n, splitVal w ρ fx (cfgAt cfg (some i) (j i)) F = formVal w (asmEnv1 ρ cfg A ι₀ n) F
  | [], _ => by simp [splitVal, formVal]
  | I :: rest, h => by
    have hI := h I (by simp)
    have ih := splitVal_sum1 w ρ hρ fx cfg A hA ι₀ n j rest (fun J hJ => h J (by simp [hJ]))
    simp only [splitVal, formVal, Finset.sum_add_distrib, ← Finset.mul_sum, ih]
    rw [C22_sum_linear ρ hρ fx cfg A hA ι₀ .none (fun _ => 0) I.integrand [] n j hI.1 (fun i => hI.2.2.1 (some i) (j i))
      (by simp [hI.2.1]) hI.2.2.2]

/-- **C22 (extract_blocks, bilinear form on `MixedElement` spaces, repaired code).**  For every bilinear form
    with one test function `dv` and one trial function `du` on (possibly different) mixed elements — any
    number of sub-elements on either side, one of them possibly not mixed — the tuple of tuples returned by
    the all-blocks call sums to the form under the assembled valuation. -/
theorem C22_extract_blocks_bilinear_fixed (w : String → K) (ρ : Env K) (hρ : AdditiveOps ρ) (fx : Bool) (cfg : SplitCfg)
    (A : List TermData) (hA : TwoArgs A) (ι₀ : IdxEnv) (F : Form) (B : Blocks) (dv du : TermData)
    (hargs : F.arguments = [dv, du]) (hdv : dv.count = 0 ∧ dv.part = -1) (hdu : du.count = 1 ∧ du.part = -1)
    (hmixed : ¬((cfg.subsOf dv.key).length = 0 ∧ (cfg.subsOf du.key).length = 0))
    (hF : BilinearForm fx cfg A F)
    (h : extractBlocks true fx plainRb cfg F none none none = some B) :
    total w ρ B = formVal w (asmEnv ρ cfg A ι₀ (max (cfg.subsOf dv.key).length 1) (max (cfg.subsOf du.key).length 1)) F := by
  have har : F.arity = 2 := by simp [Form.arity, hargs, hdv.1, hdu.1, dedupNat]
  have hparts : F.parts = [] := by simp [Form.parts, hargs, hdv.2, hdu.2, dedupNat]
  unfold extractBlocks at h
  simp only [Option.isNone_none, Option.isSome_none, Bool.and_false, Bool.false_eq_true, ↓reduceIte, har, hparts,
    List.isEmpty_nil, Bool.and_self, hargs, List.map_cons, List.map_nil] at h
  have hall : ([(cfg.subsOf dv.key).length, (cfg.subsOf du.key).length].all fun x => x == 0) = false := by
    simp only [List.all_cons, List.all_nil, Bool.and_true, Bool.and_eq_false_imp, beq_iff_eq, beq_eq_false_iff_ne]
    intro h0 h1; exact hmixed ⟨h0, h1⟩
  simp only [hall, gt_iff_lt, Nat.lt_irrefl, ↓reduceIte, Bool.false_eq_true, List.getElem?_cons_zero, List.getElem?_cons_succ,
    show ((2 : Nat) == 0) = false from rfl, show ((2 : Nat) == 1) = false from rfl, Option.map_eq_some_iff] at h
  obtain ⟨rows, hrows, rfl⟩ := h
  simp only [total]
  rw [grid_total w ρ fx cfg F _ _ rows hrows]
  exact splitVal_sum2 w ρ hρ fx cfg A hA ι₀ _ _ F hF

/-- **C22 (extract_blocks, linear form on a `MixedElement` space, repaired code).**  The tuple returned by the
    all-blocks call sums to the form under the assembled valuation. -/
theorem C22_extract_blocks_linear_fixed (w : String → K) (ρ : Env K) (hρ : AdditiveOps ρ) (fx : Bool) (cfg : SplitCfg)
    (A : List TermData) (hA : OneArg A) (ι₀ : IdxEnv) (F : Form) (B : Blocks) (dv : TermData)
    (hargs : F.arguments = [dv]) (hdv : dv.count = 0 ∧ dv.part = -1) (hmixed : (cfg.subsOf dv.key).length ≠ 0)
    (hF : LinearForm fx cfg A F)
    (h : extractBlocks true fx plainRb cfg F none none none = some B) :
    total w ρ B = formVal w (asmEnv1 ρ cfg A ι₀ (max (cfg.subsOf dv.key).length 1)) F := by
  have har : F.arity = 1 := by simp [Form.arity, hargs, dedupNat]
  have hparts : F.parts = [] := by simp [Form.parts, hargs, hdv.2, dedupNat]
  unfold extractBlocks at h
  simp only [Option.isNone_none, Option.isSome_none, Bool.and_false, Bool.false_eq_true, ↓reduceIte, har, hparts,
    List.isEmpty_nil, Bool.and_self, hargs, List.map_cons, List.map_nil] at h
  have hall : ([(cfg.subsOf dv.key).length].all fun x => x == 0) = false := by
    simp only [List.all_cons, List.all_nil, Bool.and_true, beq_eq_false_iff_ne]; exact hmixed
  simp only [hall, gt_iff_lt, ↓reduceIte, Bool.false_eq_true, List.getElem?_cons_zero,
    show ((1 : Nat) == 0) = false from rfl, show ((1 : Nat) == 1) = true from rfl, show ¬((2 : Nat) < 1) by omega,
    Option.map_eq_some_iff] at h
  obtain ⟨xs, hxs, rfl⟩ := h
  simp only [total]
  rw [column_total w ρ fx cfg F _ xs hxs]
  exact splitVal_sum1 w ρ hρ fx cfg A hA ι₀ _ (fun _ => none) F hF

/-- **C22 (extract_blocks, the code as it stands, bilinear form on `MixedElement` spaces).**  The all-blocks call
    builds `n x n` blocks, `n` the number of sub-elements of the test space; they sum to the form under the
    valuation assembled from `n` rows and `n` columns — which is the intended valuation exactly when the trial
    space is mixed with at most `n` sub-elements (`asmEnv_more_cols`); otherwise columns are missing or repeated
    (`C22_extract_blocks_rect_counterexample`). -/
theorem C22_extract_blocks_bilinear_current (w : String → K) (ρ : Env K) (hρ : AdditiveOps ρ) (fx : Bool) (cfg : SplitCfg)
    (A : List TermData) (hA : TwoArgs A) (ι₀ : IdxEnv) (F : Form) (B : Blocks) (dv du : TermData)
    (hargs : F.arguments = [dv, du]) (hdv : dv.count = 0 ∧ dv.part = -1) (hdu : du.count = 1 ∧ du.part = -1)
    (hmixed : (cfg.subsOf dv.key).length ≠ 0) (hF : BilinearForm fx cfg A F)
    (h : extractBlocks false fx plainRb cfg F none none none = some B) :
    total w ρ B = formVal w (asmEnv ρ cfg A ι₀ (cfg.subsOf dv.key).length (cfg.subsOf dv.key).length) F := by
  have har : F.arity = 2 := by simp [Form.arity, hargs, hdv.1, hdu.1, dedupNat]
  have hparts : F.parts = [] := by simp [Form.parts, hargs, hdv.2, hdu.2, dedupNat]
  unfold extractBlocks at h
  simp only [Option.isNone_none, Option.isSome_none, Bool.and_false, Bool.false_eq_true, ↓reduceIte, har, hparts,
    List.isEmpty_nil, Bool.and_self, hargs, List.head?_cons] at h
  have hn : ((cfg.subsOf dv.key).length == 0) = false := by simpa using hmixed
  simp only [hn, gt_iff_lt, Nat.lt_irrefl, ↓reduceIte, Bool.false_eq_true, show ((2 : Nat) == 0) = false from rfl,
    Option.map_eq_some_iff] at h
  obtain ⟨rows, hrows, rfl⟩ := h
  simp only [total]
  rw [grid_total w ρ fx cfg F _ _ rows hrows]
  exact splitVal_sum2 w ρ hρ fx cfg A hA ι₀ _ _ F hF

/-- **C22 (extract_blocks, the code as it stands, linear form on a `MixedElement` space): what it returns.**  The
    all-blocks call ignores the arity and builds `n x n` blocks whose row `i` is `n` copies of block `i`: the
    returned blocks sum to `n` times the form. -/
theorem C22_extract_blocks_linear_current_value (w : String → K) (ρ : Env K) (hρ : AdditiveOps ρ) (fx : Bool) (cfg : SplitCfg)
    (A : List TermData) (hA : OneArg A) (ι₀ : IdxEnv) (F : Form) (B : Blocks) (dv : TermData)
    (hargs : F.arguments = [dv]) (hdv : dv.count = 0 ∧ dv.part = -1) (hmixed : (cfg.subsOf dv.key).length ≠ 0)
    (hF : LinearForm fx cfg A F)
    (h : extractBlocks false fx plainRb cfg F none none none = some B) :
    total w ρ B = ((cfg.subsOf dv.key).length : K) * formVal w (asmEnv1 ρ cfg A ι₀ (cfg.subsOf dv.key).length) F := by
  have har : F.arity = 1 := by simp [Form.arity, hargs, dedupNat]
  have hparts : F.parts = [] := by simp [Form.parts, hargs, hdv.2, dedupNat]
  unfold extractBlocks at h
  simp only [Option.isNone_none, Option.isSome_none, Bool.and_false, Bool.false_eq_true, ↓reduceIte, har, hparts,
    List.isEmpty_nil, Bool.and_self, hargs, List.head?_cons] at h
  have hn : ((cfg.subsOf dv.key).length == 0) = false := by simpa using hmixed
  simp only [hn, gt_iff_lt, ↓reduceIte, Bool.false_eq_true, show ((1 : Nat) == 0) = false from rfl, show ¬((2 : Nat) < 1) by omega,
    Option.map_eq_some_iff] at h
  obtain ⟨rows, hrows, rfl⟩ := h
  simp only [total]
  rw [grid_total w ρ fx cfg F _ _ rows hrows, Finset.sum_comm]
  have : ∀ j, ∑ i ∈ range (cfg.subsOf dv.key).length, splitVal w ρ fx (cfgAt cfg (some i) (some j)) F
      = formVal w (asmEnv1 ρ cfg A ι₀ (cfg.subsOf dv.key).length) F :=
    fun j => splitVal_sum1 w ρ hρ fx cfg A hA ι₀ _ (fun _ => some j) F hF
  simp only [this, Finset.sum_const, Finset.card_range, nsmul_eq_mul]

/-- the restricted version that does hold of the code as it stands: a mixed element with a single sub-element -/
theorem C22_extract_blocks_linear_partial (w : String → K) (ρ : Env K) (hρ : AdditiveOps ρ) (fx : Bool) (cfg : SplitCfg)
    (A : List TermData) (hA : OneArg A) (ι₀ : IdxEnv) (F : Form) (B : Blocks) (dv : TermData)
    (hargs : F.arguments = [dv]) (hdv : dv.count = 0 ∧ dv.part = -1) (hone : (cfg.subsOf dv.key).length = 1)
    (hF : LinearForm fx cfg A F)
    (h : extractBlocks false fx plainRb cfg F none none none = some B) :
    total w ρ B = formVal w (asmEnv1 ρ cfg A ι₀ 1) F := by
  have := C22_extract_blocks_linear_current_value w ρ hρ fx cfg A hA ι₀ F B dv hargs hdv (by omega) hF h
  rw [hone] at this
  simpa using this

/-! ### columns beyond the number of sub-elements of the trial space contribute nothing -/

theorem argEntries_all_zero (r : Bool) (d : TermData) (sel : Option Nat) :
    ∀ (subs : List SubArg) (i counter : Nat), (∀ k, k < subs.length → sel ≠ some (i + k)) →
      ∀ x ∈ argEntries r d sel subs i counter, x = zeroS
  | [], _, _, _ => by intro x hx; simp [argEntries] at hx
  | sub :: rest, i, counter, h => by
    intro x hx
    simp only [argEntries, List.mem_append] at hx
    rcases hx with hx | hx
    · have hne : (sel == some i) = false := by
        have := h 0 (by simp)
        simpa using this
      simp only [subEntries, hne, Bool.not_false, ↓reduceIte, List.mem_map] at hx
      obtain ⟨_, _, rfl⟩ := hx; rfl
    · exact argEntries_all_zero r d sel rest (i + 1) _ (fun k hk => by
        have := h (k + 1) (by simp; omega)
        rwa [show i + (k + 1) = i + 1 + k by omega] at this) x hx

theorem evalNth_all_zero (ρ : Env K) (side : Side) (ι : IdxEnv) :
    ∀ (xs : List Expr) (n : Nat) (c : List Nat), (∀ x ∈ xs, x = zeroS) → evalNth ρ side ι xs n c = 0
  | [], _, _, _ => by simp [evalNth]
  | x :: xs, 0, c, h => by simp [evalNth, h x (by simp), zeroS, eval]
  | x :: xs, n + 1, c, h => by
    simp only [evalNth]; exact evalNth_all_zero ρ side ι xs n c (fun y hy => h y (by simp [hy]))

/-- the trial arguments are on mixed elements with at most `m` sub-elements -/
def TrialMixed (cfg : SplitCfg) (A : List TermData) (m : Nat) : Prop :=
  ∀ key d, argOf A key = some d → d.count = 1 → d.part = -1 ∧ (cfg.subsOf d.key).length ≠ 0 ∧ (cfg.subsOf d.key).length ≤ m

theorem col_vanishes (ρ : Env K) (cfg : SplitCfg) (A : List TermData) (ι₀ : IdxEnv) (m : Nat) (hT : TrialMixed cfg A m)
    (j : Nat) (hj : m ≤ j) (s : Side) (key : String) (hP : argP A 1 key = true) :
    (∀ c, colT ρ cfg A ι₀ j s key c = 0) ∧ (∀ c ds, colJ ρ cfg A j s key c ds = 0) := by
  simp only [argP] at hP
  cases hk : argOf A key with
  | none => simp [hk] at hP
  | some d =>
    simp only [hk, beq_iff_eq] at hP
    obtain ⟨hp, hne, hle⟩ := hT key d hk hP
    have himg : splitArgT (cfgAt cfg none (some j)) d =
        .op .listTensor [] (argEntries cfg.replaceArg d (some j) (cfg.subsOf d.key) 0 0) := by
      cases hs : cfg.subsOf d.key with
      | nil => simp [hs] at hne
      | cons x xs => simp [splitArgT, cfgAt, hP, hp, SplitCfg.subsOf] at hs ⊢; simp [SplitCfg.subsOf, hs]
    have hz := argEntries_all_zero cfg.replaceArg d (some j) (cfg.subsOf d.key) 0 0 (fun k hk => by
      simp only [Nat.zero_add, ne_eq, Option.some.injEq]; omega)
    constructor
    · intro c
      simp only [colT, hk, himg]
      cases c with
      | nil => simp [eval]
      | cons v c' => simp only [eval]; exact evalNth_all_zero ρ s ι₀ _ v c' hz
    · intro c ds
      simp only [colJ, hk, himg]

theorem asmEnv_more_cols (ρ : Env K) (cfg : SplitCfg) (A : List TermData) (ι₀ : IdxEnv) (n m m' : Nat)
    (hT : TrialMixed cfg A m) (hmm : m ≤ m') : asmEnv ρ cfg A ι₀ n m' = asmEnv ρ cfg A ι₀ n m := by
  unfold asmEnv
  congr 1
  cases ρ
  simp only [withP, Env.mk.injEq, and_true]
  constructor
  · funext s key c
    cases hP : argP A 1 key
    · simp
    · simp only [↓reduceIte]
      symm
      apply Finset.sum_subset (Finset.range_mono hmm)
      intro j _ hj
      simp only [Finset.mem_range, not_lt] at hj
      exact (col_vanishes _ cfg A ι₀ m hT j hj s key hP).1 c
  · funext s key c ds
    cases hP : argP A 1 key
    · simp
    · simp only [↓reduceIte]
      symm
      apply Finset.sum_subset (Finset.range_mono hmm)
      intro j _ hj
      simp only [Finset.mem_range, not_lt] at hj
      exact (col_vanishes _ cfg A ι₀ m hT j hj s key hP).2 c ds

/-- **C22 (extract_blocks, the code as it stands, bilinear form on `MixedElement` spaces) — partial.**  If the
    trial space is a mixed element with at most as many sub-elements as the test space (in particular: the same
    space), the `n x n` blocks of the all-blocks call sum to the form under the assembled valuation.  The side
    condition is what `fix_C22_1.diff` removes. -/
theorem C22_extract_blocks_bilinear_partial (w : String → K) (ρ : Env K) (hρ : AdditiveOps ρ) (fx : Bool) (cfg : SplitCfg)
    (A : List TermData) (hA : TwoArgs A) (ι₀ : IdxEnv) (F : Form) (B : Blocks) (dv du : TermData) (m : Nat)
    (hargs : F.arguments = [dv, du]) (hdv : dv.count = 0 ∧ dv.part = -1) (hdu : du.count = 1 ∧ du.part = -1)
    (hmixed : (cfg.subsOf dv.key).length ≠ 0) (hF : BilinearForm fx cfg A F)
    (hT : TrialMixed cfg A m) (hsq : m ≤ (cfg.subsOf dv.key).length)
    (h : extractBlocks false fx plainRb cfg F none none none = some B) :
    total w ρ B = formVal w (asmEnv ρ cfg A ι₀ (cfg.subsOf dv.key).length m) F := by
  rw [C22_extract_blocks_bilinear_current w ρ hρ fx cfg A hA ι₀ F B dv du hargs hdv hdu hmixed hF h,
      asmEnv_more_cols ρ cfg A ι₀ _ m _ hT hsq]

end sum

/-! ### `MixedFunctionSpace`: the blocks that `extract_blocks` drops are zero -/

section mfs
variable {K : Type} [Field K]

/-- at most one listed argument per (number, part): one test and one trial function per sub-space -/
def UniqueParts (A : List TermData) : Prop :=
  ∀ k1 d1 k2 d2, argOf A k1 = some d1 → argOf A k2 = some d2 → d1.count = d2.count → d1.part = d2.part → d1 = d2

theorem splitArgT_mfs (cfg : SplitCfg) (i j : Nat) (d : TermData) (hp : 0 ≤ d.part) (hc : d.count = 0 ∨ d.count = 1) :
    splitArgT (cfgAt cfg (some i) (some j)) d =
      if d.part = (if d.count = 0 then (i : Int) else (j : Int)) then .term d else .zero d.shape [] := by
  have : d.part ≠ -1 := by omega
  rcases hc with h | h <;> simp [splitArgT, cfgAt, h, this]

/-- in the block configuration `cfg'` the images of the listed arguments are those of a mixed function space: the
    argument itself if its part is the selected one (`i` for test, `j` for trial functions), zero otherwise -/
def MFSImg (cfg' : SplitCfg) (A : List TermData) (i j : Nat) : Prop :=
  ∀ key d, argOf A key = some d →
    splitArgT cfg' d = if d.part = (if d.count = 0 then (i : Int) else (j : Int)) then .term d else .zero d.shape []

theorem mfsImg_at (cfg : SplitCfg) (A : List TermData) (n m : Nat) (hA : MFSArgs A n m) (i j : Nat) :
    MFSImg (cfgAt cfg (some i) (some j)) A i j := by
  intro key d hk
  obtain ⟨_, _, hcp⟩ := hA key d hk
  have hp0 : 0 ≤ d.part := by rcases hcp with h | h <;> exact h.2.1
  have hc01 : d.count = 0 ∨ d.count = 1 := by rcases hcp with h | h; exact Or.inl h.1; exact Or.inr h.1
  exact splitArgT_mfs cfg i j d hp0 hc01

theorem mfsImg_row (cfg : SplitCfg) (A : List TermData) (n m : Nat) (hA : MFSArgs A n m) (h1 : OneArg A) (i : Nat) (j' : Option Nat) :
    MFSImg (cfgAt cfg (some i) j') A i 0 := by
  intro key d hk
  obtain ⟨_, _, hcp⟩ := hA key d hk
  have hp0 : 0 ≤ d.part := by rcases hcp with h | h <;> exact h.2.1
  have hc := h1 key d hk
  rw [splitArgT_row cfg i j' d hc, splitArgT_mfs_row cfg i d hc hp0]
  simp [hc]

/-- the arguments of block (i, j) of an integrand on a mixed function space: listed, with part i (test) or j (trial) -/
theorem mfs_block_args (fx : Bool) (cfg' : SplitCfg) (A : List TermData) (n m : Nat) (hA : MFSArgs A n m) (i j : Nat)
    (hImg : MFSImg cfg' A i j) (e : Expr) (ha : Adm none fx cfg' A e = true) (d : TermData) (hd : d ∈ argTerms (fsT fx cfg' e)) :
    argOf A d.key = some d ∧ ((d.count = 0 ∧ d.part = i) ∨ (d.count = 1 ∧ d.part = j)) := by
  obtain ⟨hdt, hdc⟩ := (argTerms_terms _ d).1 hd
  rcases terms_fsT fx _ e d hdt with ⟨_, h2⟩ | ⟨d0, h1, h2, h3⟩
  · rw [hdc] at h2; cases h2
  · have hta := adm_terms none fx _ A e ha d0 h1
    simp only [termAdm, h2, ↓reduceIte, Bool.and_eq_true, beq_iff_eq] at hta
    obtain ⟨hcls, hkey, hcp⟩ := hA d0.key d0 hta.1
    have hc01 : d0.count = 0 ∨ d0.count = 1 := by rcases hcp with h | h; exact Or.inl h.1; exact Or.inr h.1
    rw [hImg _ _ hta.1] at h3
    by_cases hpart : d0.part = (if d0.count = 0 then (i : Int) else (j : Int))
    · rw [if_pos hpart] at h3
      simp only [terms, List.mem_singleton] at h3
      subst h3
      refine ⟨hta.1, ?_⟩
      rcases hc01 with h | h
      · rw [if_pos h] at hpart; exact Or.inl ⟨h, hpart⟩
      · have : ¬d.count = 0 := by omega
        rw [if_neg this] at hpart; exact Or.inr ⟨h, hpart⟩
    · rw [if_neg hpart] at h3
      simp only [terms, List.not_mem_nil] at h3

/-- the other terminals of a block are not listed -/
theorem mfs_block_others (fx : Bool) (cfg' : SplitCfg) (A : List TermData) (i j : Nat)
    (hImg : MFSImg cfg' A i j) (e : Expr) (ha : Adm none fx cfg' A e = true) (t : TermData)
    (ht : t ∈ terms (fsT fx cfg' e)) (hc : (t.cls == "Argument") = false) : argOf A t.key = none := by
  rcases terms_fsT fx _ e t ht with ⟨h1, _⟩ | ⟨d0, h1, h2, h3⟩
  · have hta := adm_terms none fx _ A e ha t h1
    simp only [termAdm, hc, Bool.false_eq_true, ↓reduceIte, Option.isNone_iff_eq_none] at hta
    exact hta
  · have hta := adm_terms none fx _ A e ha d0 h1
    simp only [termAdm, h2, ↓reduceIte, Bool.and_eq_true, beq_iff_eq] at hta
    rw [hImg _ _ hta.1] at h3
    by_cases hpart : d0.part = (if d0.count = 0 then (i : Int) else (j : Int))
    · rw [if_pos hpart] at h3
      simp only [terms, List.mem_singleton] at h3
      subst h3; rw [h2] at hc; cases hc
    · rw [if_neg hpart] at h3
      simp only [terms, List.not_mem_nil] at h3

theorem imgEnv_additive (ρ : Env K) (hρ : AdditiveOps ρ) (cfg : SplitCfg) (A : List TermData) (ι₀ : IdxEnv) :
    AdditiveOps (imgEnv ρ cfg A ι₀) := ⟨hρ.conj, hρ.re, hρ.im⟩

/-- with the test (`nn = 0`) or the trial (`nn = 1`) arguments set to zero, block (i, j) of a linear integrand on a
    mixed function space vanishes -/
theorem mfs_img_zero (ρ : Env K) (hρ : AdditiveOps ρ) (cfg' : SplitCfg) (A : List TermData) (n m : Nat) (hA : MFSArgs A n m) (ι₀ : IdxEnv)
    (i j : Nat) (hImg : MFSImg cfg' A i j) (nn : Int) (side : Side) (ι : IdxEnv) (e : Expr) (c : List Nat) (hl : LinIn (argP A nn) e = true) :
    eval (imgEnv (withP ρ (argP A nn) (fun _ _ _ => 0) (fun _ _ _ _ => 0)) cfg' A ι₀) side ι e c = 0 := by
  have hE : imgEnv (withP ρ (argP A nn) (fun _ _ _ => 0) (fun _ _ _ _ => 0)) cfg' A ι₀
      = withP (imgEnv (withP ρ (argP A nn) (fun _ _ _ => 0) (fun _ _ _ _ => 0)) cfg' A ι₀)
          (argP A nn) (fun _ _ _ => 0) (fun _ _ _ _ => 0) := by
    symm
    apply withP_self
    · intro s key c hP
      simp only [argP] at hP
      cases hk : argOf A key with
      | none => simp [hk] at hP
      | some d =>
        obtain ⟨hcls, hkey, hcp⟩ := hA key d hk
        have hcn : d.count = nn := by simpa [hk] using hP
        simp only [imgEnv, hk, hImg key d hk]
        by_cases hpart : d.part = (if d.count = 0 then (i : Int) else (j : Int))
        · rw [if_pos hpart]
          have : argP A nn key = true := by simp [argP, hk, hcn]
          simp [eval, hcls, withP_term, hkey, this]
        · rw [if_neg hpart]; simp [eval]
    · intro s key c ds hP
      simp only [argP] at hP
      cases hk : argOf A key with
      | none => simp [hk] at hP
      | some d =>
        obtain ⟨hcls, hkey, hcp⟩ := hA key d hk
        have hcn : d.count = nn := by simpa [hk] using hP
        simp only [imgEnv, hk, hImg key d hk]
        by_cases hpart : d.part = (if d.count = 0 then (i : Int) else (j : Int))
        · rw [if_pos hpart]
          have : argP A nn key = true := by simp [argP, hk, hcn]
          simp [withP_jet, this]
        · rw [if_neg hpart]
  rw [hE]
  exact eval_zero_of_lin _ (argP A nn) (imgEnv_additive _ (additive_withP ρ hρ _ _ _) _ A ι₀) side ι e c hl

theorem mapIntegrands_mem (fx : Bool) (cfg : SplitCfg) : ∀ (F F' : Form), mapIntegrands (fsG fx plainRb cfg) F = some F' →
    (∀ I ∈ F, isZero (fsT fx cfg I.integrand) = true ∨ ∃ J ∈ F', J.integrand = fsT fx cfg I.integrand) ∧
    (∀ J ∈ F', ∃ I ∈ F, J.integrand = fsT fx cfg I.integrand)
  | [], F', h => by simp only [mapIntegrands, Option.some.injEq] at h; subst h; simp
  | I :: rest, F', h => by
    simp only [mapIntegrands] at h
    cases he : fsG fx plainRb cfg I.integrand with
    | none => rw [he] at h; cases h
    | some e =>
      cases hr : mapIntegrands (fsG fx plainRb cfg) rest with
      | none => rw [he, hr] at h; cases h
      | some r =>
        rw [he, hr] at h
        simp only at h
        have ih := mapIntegrands_mem fx cfg rest r hr
        have hee := fsG_plain fx cfg I.integrand e he
        split at h
        · rename_i hz
          simp only [Option.some.injEq] at h; subst h
          constructor
          · intro I' hI'
            rcases List.mem_cons.mp hI' with rfl | hI'
            · exact Or.inl (by rw [← hee]; exact hz)
            · exact ih.1 I' hI'
          · intro J hJ
            obtain ⟨I', hI', hJI⟩ := ih.2 J hJ
            exact ⟨I', List.mem_cons_of_mem _ hI', hJI⟩
        · simp only [Option.some.injEq] at h; subst h
          constructor
          · intro I' hI'
            rcases List.mem_cons.mp hI' with rfl | hI'
            · exact Or.inr ⟨{ key := I'.key, integrand := e }, by simp, hee⟩
            · rcases ih.1 I' hI' with h | ⟨J, hJ, hJI⟩
              · exact Or.inl h
              · exact Or.inr ⟨J, List.mem_cons_of_mem _ hJ, hJI⟩
          · intro J hJ
            rcases List.mem_cons.mp hJ with rfl | hJ
            · exact ⟨I, by simp, hee⟩
            · obtain ⟨I', hI', hJI⟩ := ih.2 J hJ
              exact ⟨I', List.mem_cons_of_mem _ hI', hJI⟩

theorem splitVal_zero (w : String → K) (ρ : Env K) (fx : Bool) (cfg : SplitCfg) : ∀ (F : Form),
    (∀ I ∈ F, eval ρ .none (fun _ => 0) (fsT fx cfg I.integrand) [] = 0) → splitVal w ρ fx cfg F = 0
  | [], _ => rfl
  | I :: rest, h => by
    simp only [splitVal, h I (by simp), mul_zero, zero_add]
    exact splitVal_zero w ρ fx cfg rest (fun J hJ => h J (by simp [hJ]))

/-- a block of a form on a mixed function space in which no test function (`nn = 0`) / no trial function
    (`nn = 1`) is left has the value zero -/
theorem mfs_block_without_arg (w : String → K) (ρ : Env K) (hρ : AdditiveOps ρ) (fx : Bool) (cfg' : SplitCfg) (A : List TermData) (n m : Nat)
    (hA : MFSArgs A n m) (ι₀ : IdxEnv) (F F' : Form) (i j : Nat) (hImg : MFSImg cfg' A i j) (nn : Int)
    (hF : ∀ I ∈ F, WF I.integrand = true ∧ shape I.integrand = [] ∧ Adm none fx cfg' A I.integrand = true ∧
        LinIn (argP A nn) I.integrand = true)
    (hmap : mapIntegrands (fsG fx plainRb cfg') F = some F')
    (hno : ∀ J ∈ F', ∀ d ∈ argTerms J.integrand, d.count ≠ nn) :
    splitVal w ρ fx cfg' F = 0 := by
  apply splitVal_zero
  intro I hI
  obtain ⟨hw, hsh, hadm, hlin⟩ := hF I hI
  rcases (mapIntegrands_mem fx _ F F' hmap).1 I hI with hz | ⟨J, hJ, hJI⟩
  · obtain ⟨sh, f, he⟩ := isZero_eq' _ hz
    rw [he]; simp [eval]
  · have hfree : FreeOf (argP A nn) (fsT fx cfg' I.integrand) = true := by
      rw [freeOf_iff]
      intro t ht
      by_cases hc : (t.cls == "Argument") = true
      · have hta : t ∈ argTerms J.integrand := by rw [hJI]; exact (argTerms_terms _ t).2 ⟨ht, hc⟩
        have hcnt := hno J hJ t hta
        have hl := (mfs_block_args fx cfg' A n m hA i j hImg I.integrand hadm t (by rw [← hJI]; exact hta)).1
        simp [argP, hl, hcnt]
      · have := mfs_block_others fx cfg' A i j hImg I.integrand hadm t ht (by simpa using hc)
        simp [argP, this]
    rw [← eval_free ρ (argP A nn) hρ (fun _ _ _ => 0) (fun _ _ _ _ => 0) .none (fun _ => 0) _ [] hfree,
        C22_block_value _ fx _ A ι₀ .none (fun _ => 0) I.integrand [] hw hadm (by simp [hsh])]
    exact mfs_img_zero ρ hρ cfg' A n m hA ι₀ i j hImg nn .none (fun _ => 0) I.integrand [] hlin

/-- a block in which a test function and a trial function are left mentions exactly two arguments -/
theorem mfs_block_two_args (fx : Bool) (cfg' : SplitCfg) (A : List TermData) (n m : Nat) (hA : MFSArgs A n m) (hU : UniqueParts A)
    (F F' : Form) (i j : Nat) (hImg : MFSImg cfg' A i j) (hF : ∀ I ∈ F, Adm none fx cfg' A I.integrand = true)
    (hmap : mapIntegrands (fsG fx plainRb cfg') F = some F')
    (Ja Jb : Integral) (a b : TermData) (hJa : Ja ∈ F') (ha : a ∈ argTerms Ja.integrand) (hca : a.count = 0)
    (hJb : Jb ∈ F') (hb : b ∈ argTerms Jb.integrand) (hcb : b.count = 1) : F'.arguments.length = 2 := by
  have hL : ∀ x ∈ F'.flatMap (fun I => argTerms I.integrand),
      argOf A x.key = some x ∧ ((x.count = 0 ∧ x.part = i) ∨ (x.count = 1 ∧ x.part = j)) := by
    intro x hx
    obtain ⟨J, hJ, hxJ⟩ := List.mem_flatMap.mp hx
    obtain ⟨I, hI, hJI⟩ := (mapIntegrands_mem fx _ F F' hmap).2 J hJ
    exact mfs_block_args fx cfg' A n m hA i j hImg I.integrand (hF I hI) x (by rw [← hJI]; exact hxJ)
  have haL : a ∈ F'.flatMap (fun I => argTerms I.integrand) := List.mem_flatMap.mpr ⟨Ja, hJa, ha⟩
  have hbL : b ∈ F'.flatMap (fun I => argTerms I.integrand) := List.mem_flatMap.mpr ⟨Jb, hJb, hb⟩
  have hla := hL a haL
  have hlb := hL b hbL
  have hpa : a.part = i := by rcases hla.2 with h | h; exact h.2; omega
  have hpb : b.part = j := by rcases hlb.2 with h | h; omega; exact h.2
  have hel : ∀ x ∈ F'.flatMap (fun I => argTerms I.integrand), x = a ∨ x = b := by
    intro x hx
    have hlx := hL x hx
    rcases hlx.2 with h | h
    · exact Or.inl (hU _ _ _ _ hlx.1 hla.1 (by rw [h.1, hca]) (by rw [h.2, hpa]))
    · exact Or.inr (hU _ _ _ _ hlx.1 hlb.1 (by rw [h.1, hcb]) (by rw [h.2, hpb]))
  have hab : a.key ≠ b.key := by
    intro hk
    have h1 := hla.1; rw [hk, hlb.1] at h1
    simp only [Option.some.injEq] at h1
    rw [← h1, hcb] at hca; cases hca
  have hmem : ∀ x ∈ F'.flatMap (fun I => argTerms I.integrand), x ∈ dedupKeysFS (F'.flatMap (fun I => argTerms I.integrand)) := by
    intro x hx
    obtain ⟨y, hy, hyk⟩ := dedupKeys_has _ x hx
    rcases hel x hx with rfl | rfl <;> rcases hel y (dedupKeys_sub _ y hy) with rfl | rfl
    · exact hy
    · exact absurd hyk.symm hab
    · exact absurd hyk hab
    · exact hy
  have := two_of_pairwise a b hab _ (dedupKeys_pairwise _) (fun x hx => hel x (dedupKeys_sub _ x hx)) (hmem a haL) (hmem b hbL)
  simp only [Form.arguments, foldr_insert_length, this]

/-- a block of a linear form in which a test function is left mentions exactly one argument -/
theorem mfs_block_one_arg (fx : Bool) (cfg' : SplitCfg) (A : List TermData) (n m : Nat) (hA : MFSArgs A n m) (hU : UniqueParts A) (h1 : OneArg A)
    (F F' : Form) (i j : Nat) (hImg : MFSImg cfg' A i j) (hF : ∀ I ∈ F, Adm none fx cfg' A I.integrand = true)
    (hmap : mapIntegrands (fsG fx plainRb cfg') F = some F')
    (Ja : Integral) (a : TermData) (hJa : Ja ∈ F') (ha : a ∈ argTerms Ja.integrand) : F'.arguments.length = 1 := by
  have hL : ∀ x ∈ F'.flatMap (fun I => argTerms I.integrand), argOf A x.key = some x ∧ x.count = 0 ∧ x.part = i := by
    intro x hx
    obtain ⟨J, hJ, hxJ⟩ := List.mem_flatMap.mp hx
    obtain ⟨I, hI, hJI⟩ := (mapIntegrands_mem fx _ F F' hmap).2 J hJ
    have := mfs_block_args fx cfg' A n m hA i j hImg I.integrand (hF I hI) x (by rw [← hJI]; exact hxJ)
    have hc := h1 _ _ this.1
    rcases this.2 with h | h
    · exact ⟨this.1, h.1, h.2⟩
    · omega
  have haL : a ∈ F'.flatMap (fun I => argTerms I.integrand) := List.mem_flatMap.mpr ⟨Ja, hJa, ha⟩
  have hla := hL a haL
  have hel : ∀ x ∈ F'.flatMap (fun I => argTerms I.integrand), x = a := by
    intro x hx
    have hlx := hL x hx
    exact hU _ _ _ _ hlx.1 hla.1 (by rw [hlx.2.1, hla.2.1]) (by rw [hlx.2.2, hla.2.2])
  obtain ⟨y, hy, _⟩ := dedupKeys_has _ a haL
  have hya : y = a := hel y (dedupKeys_sub _ y hy)
  have hlen := one_of_pairwise a _ (dedupKeys_pairwise (F'.flatMap (fun I => argTerms I.integrand)))
    (fun x hx => hel x (dedupKeys_sub _ x hx)) (hya ▸ hy)
  simp only [Form.arguments, foldr_insert_length, hlen]

/-- **C22 (extract_blocks, bilinear form on a `MixedFunctionSpace`; the code as it stands and the repaired code).**
    For every bilinear form on a mixed function space — one test and one trial function per sub-space, parts
    `0 .. n-1` — the `n x n` tuple returned by the all-blocks call sums to the form itself, under every valuation:
    the blocks that are dropped (`None`: empty, or not mentioning a test and a trial function) have the value zero. -/
theorem C22_extract_blocks_mfs (w : String → K) (ρ : Env K) (hρ : AdditiveOps ρ) (fxB fx : Bool) (cfg : SplitCfg)
    (A : List TermData) (n : Nat) (hA : MFSArgs A n n) (hU : UniqueParts A) (ι₀ : IdxEnv) (F : Form) (B : Blocks)
    (har : F.arity = 2) (hparts : F.parts ≠ []) (hn : n = F.parts.foldl max 0 + 1) (hF : BilinearForm fx cfg A F)
    (h : extractBlocks fxB fx plainRb cfg F none none none = some B) :
    total w ρ B = formVal w ρ F := by
  unfold extractBlocks at h
  have hpe : F.parts.isEmpty = false := by simpa using hparts
  simp only [Option.isNone_none, Option.isSome_none, Bool.and_false, Bool.false_eq_true, ↓reduceIte, har, hpe,
    gt_iff_lt, Nat.lt_irrefl, show ((2 : Nat) == 0) = false from rfl, show ((2 : Nat) == 2) = true from rfl, ← hn] at h
  cases htab : tabulate n (fun pi => Option.map Blocks.tup (tabulate n fun pj =>
      Option.map (fun (f : Form) => if (List.isEmpty f || f.arguments.length != 2) = true then Blocks.none else Blocks.form f)
        (splitFormFS fx plainRb cfg (some pi) (some pj) F))) with
  | none => rw [htab] at h; cases h
  | some fs =>
    rw [htab] at h
    simp only [Option.some.injEq] at h; subst h
    simp only [total]
    have key : totalL w ρ fs = ∑ i ∈ range n, ∑ j ∈ range n, splitVal w ρ fx (cfgAt cfg (some i) (some j)) F := by
      apply tabulate_total w ρ _ _ n fs htab
      intro i b hb
      simp only [Option.map_eq_some_iff] at hb
      obtain ⟨cols, hc, rfl⟩ := hb
      simp only [total]
      apply tabulate_total w ρ _ _ n cols hc
      intro j b hb
      simp only [Option.map_eq_some_iff] at hb
      obtain ⟨F', hF', rfl⟩ := hb
      have hval := mapIntegrands_val w ρ fx (cfgAt cfg (some i) (some j)) F F' hF'
      split
      · rename_i hdrop
        simp only [total]
        simp only [Bool.or_eq_true, List.isEmpty_iff, bne_iff_ne, ne_eq] at hdrop
        rcases hdrop with hemp | hlen
        · rw [← hval, hemp]; rfl
        · by_cases h0 : ∃ J ∈ F', ∃ d ∈ argTerms J.integrand, d.count = 0
          · by_cases h1 : ∃ J ∈ F', ∃ d ∈ argTerms J.integrand, d.count = 1
            · obtain ⟨Ja, hJa, a, ha, hca⟩ := h0
              obtain ⟨Jb, hJb, b, hb, hcb⟩ := h1
              exact absurd (mfs_block_two_args fx _ A n n hA hU F F' i j (mfsImg_at cfg A n n hA i j)
                (fun I hI => (hF I hI).2.2.1 (some i) (some j)) hF' Ja Jb a b hJa ha hca hJb hb hcb) hlen
            · symm
              apply mfs_block_without_arg w ρ hρ fx _ A n n hA ι₀ F F' i j (mfsImg_at cfg A n n hA i j) 1
                (fun I hI => ⟨(hF I hI).1, (hF I hI).2.1, (hF I hI).2.2.1 (some i) (some j), (hF I hI).2.2.2.2⟩) hF'
              intro J hJ d hd hc
              exact h1 ⟨J, hJ, d, hd, hc⟩
          · symm
            apply mfs_block_without_arg w ρ hρ fx _ A n n hA ι₀ F F' i j (mfsImg_at cfg A n n hA i j) 0
              (fun I hI => ⟨(hF I hI).1, (hF I hI).2.1, (hF I hI).2.2.1 (some i) (some j), (hF I hI).2.2.2.1⟩) hF'
            intro J hJ d hd hc
            exact h0 ⟨J, hJ, d, hd, hc⟩
      · simp only [total]; exact hval
    rw [key, splitVal_sum2 w ρ hρ fx cfg A hA.two ι₀ n n F hF, asmEnv_mfs ρ cfg A ι₀ n n hA]

theorem asmEnv1_mfs (ρ : Env K) (cfg : SplitCfg) (A : List TermData) (ι₀ : IdxEnv) (n m : Nat) (hA : MFSArgs A n m) :
    asmEnv1 ρ cfg A ι₀ n = ρ := by
  unfold asmEnv1
  apply withP_self
  · intro s key c hP
    simp only [argP] at hP
    cases hk : argOf A key with
    | none => simp [hk] at hP
    | some d =>
      simp only [hk, beq_iff_eq] at hP
      obtain ⟨hcls, hkey, h⟩ := hA key d hk
      rcases h with ⟨h0, hp0, hpn⟩ | ⟨h1, _, _⟩
      · simp only [rowT, hk, splitArgT_mfs_row cfg _ d h0 hp0]
        have : ∀ i : Nat, eval ρ s ι₀ (if d.part = (i : Int) then Expr.term d else Expr.zero d.shape []) c
            = if d.part = (i : Int) then ρ.term s key c else 0 := by
          intro i; split <;> simp [eval, hcls, hkey]
        simp only [this]
        exact sum_ite_part d.part n _ hp0 hpn
      · rw [h1] at hP; cases hP
  · intro s key c ds hP
    simp only [argP] at hP
    cases hk : argOf A key with
    | none => simp [hk] at hP
    | some d =>
      simp only [hk, beq_iff_eq] at hP
      obtain ⟨hcls, hkey, h⟩ := hA key d hk
      rcases h with ⟨h0, hp0, hpn⟩ | ⟨h1, _, _⟩
      · simp only [rowJ, hk, splitArgT_mfs_row cfg _ d h0 hp0]
        have : ∀ i : Nat, (match (if d.part = (i : Int) then Expr.term d else Expr.zero d.shape []) with
            | .term _ => ρ.jet s key c ds
            | _ => 0) = if d.part = (i : Int) then ρ.jet s key c ds else 0 := by
          intro i; by_cases hq : d.part = (i : Int) <;> simp [hq]
        simp only [this]
        exact sum_ite_part d.part n _ hp0 hpn
      · rw [h1] at hP; cases hP

/-- **C22 (extract_blocks, linear form on a `MixedFunctionSpace`; the code as it stands and the repaired code).**
    The tuple returned by the all-blocks call sums to the form itself, under every valuation; the entries that are
    dropped (`None`) have the value zero. -/
theorem C22_extract_blocks_mfs_linear (w : String → K) (ρ : Env K) (hρ : AdditiveOps ρ) (fxB fx : Bool) (cfg : SplitCfg)
    (A : List TermData) (n : Nat) (hA : MFSArgs A n n) (hU : UniqueParts A) (h1 : OneArg A) (ι₀ : IdxEnv) (F : Form) (B : Blocks)
    (har : F.arity = 1) (hparts : F.parts ≠ []) (hn : n = F.parts.foldl max 0 + 1) (hF : LinearForm fx cfg A F)
    (h : extractBlocks fxB fx plainRb cfg F none none none = some B) :
    total w ρ B = formVal w ρ F := by
  unfold extractBlocks at h
  have hpe : F.parts.isEmpty = false := by simpa using hparts
  simp only [Option.isNone_none, Option.isSome_none, Bool.and_false, Bool.false_eq_true, ↓reduceIte, har, hpe,
    gt_iff_lt, show ¬((2 : Nat) < 1) by omega, show ((1 : Nat) == 0) = false from rfl, show ((1 : Nat) == 2) = false from rfl, ← hn] at h
  cases htab : tabulate n (fun pi => Option.map
      (fun (f : Form) => if (List.isEmpty f || f.arguments.length != 1) = true then Blocks.none else Blocks.form f)
      (splitFormFS fx plainRb cfg (some pi) none F)) with
  | none => rw [htab] at h; cases h
  | some fs =>
    rw [htab] at h
    simp only [Option.some.injEq] at h; subst h
    simp only [total]
    have key : totalL w ρ fs = ∑ i ∈ range n, splitVal w ρ fx (cfgAt cfg (some i) none) F := by
      apply tabulate_total w ρ _ _ n fs htab
      intro i b hb
      simp only [Option.map_eq_some_iff] at hb
      obtain ⟨F', hF', rfl⟩ := hb
      have hval := mapIntegrands_val w ρ fx (cfgAt cfg (some i) none) F F' hF'
      split
      · rename_i hdrop
        simp only [total]
        simp only [Bool.or_eq_true, List.isEmpty_iff, bne_iff_ne, ne_eq] at hdrop
        rcases hdrop with hemp | hlen
        · rw [← hval, hemp]; rfl
        · by_cases h0 : ∃ J ∈ F', ∃ d ∈ argTerms J.integrand, True
          · obtain ⟨Ja, hJa, a, ha, _⟩ := h0
            exact absurd (mfs_block_one_arg fx _ A n n hA hU h1 F F' i 0 (mfsImg_row cfg A n n hA h1 i none)
              (fun I hI => (hF I hI).2.2.1 (some i) none) hF' Ja a hJa ha) hlen
          · symm
            apply mfs_block_without_arg w ρ hρ fx _ A n n hA ι₀ F F' i 0 (mfsImg_row cfg A n n hA h1 i none) 0
              (fun I hI => ⟨(hF I hI).1, (hF I hI).2.1, (hF I hI).2.2.1 (some i) none, (hF I hI).2.2.2⟩) hF'
            intro J hJ d hd _
            exact h0 ⟨J, hJ, d, hd, trivial⟩
      · simp only [total]; exact hval
    rw [key, splitVal_sum1 w ρ hρ fx cfg A h1 ι₀ n (fun _ => none) F hF, asmEnv1_mfs ρ cfg A ι₀ n n hA]

/-- **C22 (support, `MixedFunctionSpace`).**  The arguments that occur in block (i, j) are arguments of the form
    with part `i` (test functions) or part `j` (trial functions): nothing of any other sub-space is left. -/
theorem C22_support_mfs (fx : Bool) (cfg : SplitCfg) (A : List TermData) (n m : Nat) (hA : MFSArgs A n m) (i j : Nat) (e : Expr)
    (ha : Adm none fx (cfgAt cfg (some i) (some j)) A e = true) (d : TermData)
    (hd : d ∈ argTerms (fsT fx (cfgAt cfg (some i) (some j)) e)) :
    argOf A d.key = some d ∧ ((d.count = 0 ∧ d.part = i) ∨ (d.count = 1 ∧ d.part = j)) :=
  mfs_block_args fx _ A n m hA i j (mfsImg_at cfg A n m hA i j) e ha d hd

end mfs

/-! ## 3b. mixed-element arguments under gradients: the semantics extended by the componentwise gradient -/

section gradient

/-- **C22 (the extended semantics is conservative).**  On well-formed expressions — gradients on chains
    `grad^k(terminal)` only — `evalX` is `eval`. -/
theorem C22_evalX_conservative {K : Type} [Add K] [Mul K] [Sub K] [Neg K] [Div K] [Zero K] [One K] [IntCast K] [NatCast K]
    (ρ : Env K) (side : Side) (ι : IdxEnv) (e : Expr) (c : List Nat) (hw : WF e = true) :
    evalX ρ side ι e c = eval ρ side ι e c :=
  (evalX_conservative ρ).1 side ι e c hw

/-- **C22 (block value, gradients of mixed-element arguments included).**  `C22_block_value` without the restriction on
    arguments under `grad` (`Adm (some _)`): the block — read with the gradient of a tensor of components taken
    componentwise (`evalX`) — has the value of the integrand under the valuation in which every argument, and every
    derivative of it, takes the value of its image in the block (`imgEnvG`). -/
theorem C22_block_value_grad {K : Type} [Add K] [Mul K] [Sub K] [Neg K] [Div K] [Zero K] [One K] [IntCast K] [NatCast K]
    (ρ : Env K) (fx : Bool) (cfg : SplitCfg) (A : List TermData) (ι₀ : IdxEnv) (side : Side) (ι : IdxEnv)
    (e : Expr) (c : List Nat) (hw : WF e = true) (ha : Adm (some 0) fx cfg A e = true) (hc : c.length = (shape e).length) :
    evalX ρ side ι (fsT fx cfg e) c = eval (imgEnvG ρ cfg A ι₀) side ι e c :=
  (blockX_aux ρ fx cfg A ι₀).1 side ι e c hw ha hc

variable {K : Type} [Field K]

def rowJG (ρ : Env K) (cfg : SplitCfg) (A : List TermData) (i : Nat) : Side → String → List Nat → List Nat → K :=
  fun s key c ds => match argOf A key with
    | some d => evalJet ρ s (splitArgT (cfgAt cfg (some i) none) d) c ds
    | none => 0
def colJG (ρ : Env K) (cfg : SplitCfg) (A : List TermData) (j : Nat) : Side → String → List Nat → List Nat → K :=
  fun s key c ds => match argOf A key with
    | some d => evalJet ρ s (splitArgT (cfgAt cfg none (some j)) d) c ds
    | none => 0

/-- the assembled valuation, derivatives included: every (derivative of a) mixed argument is the sum of the (derivatives
    of the) zero-padded sub-functions -/
def asmEnvG (ρ : Env K) (cfg : SplitCfg) (A : List TermData) (ι₀ : IdxEnv) (n m : Nat) : Env K :=
  withP (withP ρ (argP A 1) (fun s k c => ∑ j ∈ range m, colT ρ cfg A ι₀ j s k c) (fun s k c ds => ∑ j ∈ range m, colJG ρ cfg A j s k c ds))
    (argP A 0) (fun s k c => ∑ i ∈ range n, rowT ρ cfg A ι₀ i s k c) (fun s k c ds => ∑ i ∈ range n, rowJG ρ cfg A i s k c ds)

theorem imgEnvG_eq (ρ : Env K) (cfg : SplitCfg) (A : List TermData) (ι₀ : IdxEnv) (hA : TwoArgs A) (i j : Nat) :
    imgEnvG ρ (cfgAt cfg (some i) (some j)) A ι₀ =
      withP (withP ρ (argP A 0) (rowT ρ cfg A ι₀ i) (rowJG ρ cfg A i)) (argP A 1) (colT ρ cfg A ι₀ j) (colJG ρ cfg A j) := by
  cases ρ
  simp only [imgEnvG, withP, Env.mk.injEq, and_true]
  constructor
  · funext s key c
    cases hk : argOf A key with
    | none => simp [argP, hk]
    | some d =>
      rcases hA key d hk with h | h
      · simp [argP, hk, h, rowT, splitArgT_row cfg i (some j) d h]
      · simp [argP, hk, h, colT, splitArgT_col cfg (some i) j d h]
  · funext s key c ds
    cases hk : argOf A key with
    | none => simp [argP, hk]
    | some d =>
      rcases hA key d hk with h | h
      · simp [argP, hk, h, rowJG, splitArgT_row cfg i (some j) d h]
      · simp [argP, hk, h, colJG, splitArgT_col cfg (some i) j d h]

/-- **C22 (sum, gradients of mixed-element arguments included).**  For every integrand that is linear in the test and
    in the trial arguments, the `n x m` blocks (read with `evalX`) add up to the integrand under the assembled
    valuation — e.g. the blocks of `inner(grad(u), grad(v))` on a Taylor–Hood element. -/
theorem C22_sum_grad (ρ : Env K) (hρ : AdditiveOps ρ) (fx : Bool) (cfg : SplitCfg) (A : List TermData) (hA : TwoArgs A) (ι₀ : IdxEnv)
    (side : Side) (ι : IdxEnv) (e : Expr) (c : List Nat) (n m : Nat)
    (hw : WF e = true) (ha : ∀ i j, Adm (some 0) fx (cfgAt cfg (some i) (some j)) A e = true) (hc : c.length = (shape e).length)
    (h0 : LinIn (argP A 0) e = true) (h1 : LinIn (argP A 1) e = true) :
    ∑ i ∈ range n, ∑ j ∈ range m, evalX ρ side ι (fsT fx (cfgAt cfg (some i) (some j)) e) c
      = eval (asmEnvG ρ cfg A ι₀ n m) side ι e c := by
  have step1 : ∀ i j, evalX ρ side ι (fsT fx (cfgAt cfg (some i) (some j)) e) c =
      eval (withP (withP ρ (argP A 0) (rowT ρ cfg A ι₀ i) (rowJG ρ cfg A i)) (argP A 1) (colT ρ cfg A ι₀ j) (colJG ρ cfg A j)) side ι e c := by
    intro i j
    rw [C22_block_value_grad ρ fx _ A ι₀ side ι e c hw (ha i j) hc, imgEnvG_eq ρ cfg A ι₀ hA i j]
  simp only [step1]
  have step2 : ∀ i, ∑ j ∈ range m, eval (withP (withP ρ (argP A 0) (rowT ρ cfg A ι₀ i) (rowJG ρ cfg A i)) (argP A 1) (colT ρ cfg A ι₀ j) (colJG ρ cfg A j)) side ι e c
      = eval (withP (withP ρ (argP A 1) (fun s k c => ∑ j ∈ range m, colT ρ cfg A ι₀ j s k c) (fun s k c ds => ∑ j ∈ range m, colJG ρ cfg A j s k c ds))
          (argP A 0) (rowT ρ cfg A ι₀ i) (rowJG ρ cfg A i)) side ι e c := by
    intro i
    rw [eval_sum _ (argP A 1) (additive_withP ρ hρ _ _ _) side ι e c h1 (colT ρ cfg A ι₀) (colJG ρ cfg A) m]
    rw [withP_swap ρ (argP A 0) (argP A 1) (argP_disjoint A)]
  simp only [step2]
  exact eval_sum _ (argP A 0) (additive_withP ρ hρ _ _ _) side ι e c h0 (rowT ρ cfg A ι₀) (rowJG ρ cfg A) n

theorem imgEnvG_eq1 (ρ : Env K) (cfg : SplitCfg) (A : List TermData) (ι₀ : IdxEnv) (hA : OneArg A) (i : Nat) (j : Option Nat) :
    imgEnvG ρ (cfgAt cfg (some i) j) A ι₀ = withP ρ (argP A 0) (rowT ρ cfg A ι₀ i) (rowJG ρ cfg A i) := by
  cases ρ
  simp only [imgEnvG, withP, Env.mk.injEq, and_true]
  constructor
  · funext s key c
    cases hk : argOf A key with
    | none => simp [argP, hk]
    | some d => simp [argP, hk, hA key d hk, rowT, splitArgT_row cfg i j d (hA key d hk)]
  · funext s key c ds
    cases hk : argOf A key with
    | none => simp [argP, hk]
    | some d => simp [argP, hk, hA key d hk, rowJG, splitArgT_row cfg i j d (hA key d hk)]

/-- the assembled valuation of a linear form, derivatives included -/
def asmEnv1G (ρ : Env K) (cfg : SplitCfg) (A : List TermData) (ι₀ : IdxEnv) (n : Nat) : Env K :=
  withP ρ (argP A 0) (fun s k c => ∑ i ∈ range n, rowT ρ cfg A ι₀ i s k c) (fun s k c ds => ∑ i ∈ range n, rowJG ρ cfg A i s k c ds)

/-- **C22 (sum, linear, gradients of mixed-element arguments included).** -/
theorem C22_sum_linear_grad (ρ : Env K) (hρ : AdditiveOps ρ) (fx : Bool) (cfg : SplitCfg) (A : List TermData) (hA : OneArg A) (ι₀ : IdxEnv)
    (side : Side) (ι : IdxEnv) (e : Expr) (c : List Nat) (n : Nat) (j : Nat → Option Nat)
    (hw : WF e = true) (ha : ∀ i, Adm (some 0) fx (cfgAt cfg (some i) (j i)) A e = true) (hc : c.length = (shape e).length)
    (h0 : LinIn (argP A 0) e = true) :
    ∑ i ∈ range n, evalX ρ side ι (fsT fx (cfgAt cfg (some i) (j i)) e) c = eval (asmEnv1G ρ cfg A ι₀ n) side ι e c := by
  have step1 : ∀ i, evalX ρ side ι (fsT fx (cfgAt cfg (some i) (j i)) e) c =
      eval (withP ρ (argP A 0) (rowT ρ cfg A ι₀ i) (rowJG ρ cfg A i)) side ι e c := by
    intro i
    rw [C22_block_value_grad ρ fx _ A ι₀ side ι e c hw (ha i) hc, imgEnvG_eq1 ρ cfg A ι₀ hA i (j i)]
  simp only [step1]
  exact eval_sum ρ (argP A 0) hρ side ι e c h0 (rowT ρ cfg A ι₀) (rowJG ρ cfg A) n

/-! ### what `extract_blocks` returns, gradients of mixed-element arguments included (blocks read with `evalX`) -/

/-- the value of a form whose integrands are read with `evalX` (blocks may contain gradients of list tensors) -/
def formValX (w : String → K) (ρ : Env K) : Form → K
  | [] => 0
  | I :: rest => w I.key * evalX ρ .none (fun _ => 0) I.integrand [] + formValX w ρ rest

mutual
/-- the sum of the values of all blocks of a result of `extract_blocks` (`None` counts as 0) -/
def totalX (w : String → K) (ρ : Env K) : Blocks → K
  | .form f => formValX w ρ f
  | .none => 0
  | .tup xs => totalLX w ρ xs
def totalLX (w : String → K) (ρ : Env K) : List Blocks → K
  | [] => 0
  | b :: bs => totalX w ρ b + totalLX w ρ bs
end

/-- the split integrands, weighted: the value of `FormSplitter.split(form, ix, iy)` -/
def splitValX (w : String → K) (ρ : Env K) (fx : Bool) (cfg : SplitCfg) : Form → K
  | [] => 0
  | I :: rest => w I.key * evalX ρ .none (fun _ => 0) (fsT fx cfg I.integrand) [] + splitValX w ρ fx cfg rest

theorem mapIntegrands_valX (w : String → K) (ρ : Env K) (fx : Bool) (cfg : SplitCfg) :
    ∀ (F F' : Form), mapIntegrands (fsG fx plainRb cfg) F = some F' → formValX w ρ F' = splitValX w ρ fx cfg F
  | [], F', h => by simp only [mapIntegrands, Option.some.injEq] at h; subst h; rfl
  | I :: rest, F', h => by
    simp only [mapIntegrands] at h
    cases he : fsG fx plainRb cfg I.integrand with
    | none => rw [he] at h; cases h
    | some e =>
      cases hr : mapIntegrands (fsG fx plainRb cfg) rest with
      | none => rw [he, hr] at h; cases h
      | some r =>
        rw [he, hr] at h
        simp only at h
        have ih := mapIntegrands_valX w ρ fx cfg rest r hr
        have hee := fsG_plain fx cfg I.integrand e he
        split at h
        · rename_i hz
          simp only [Option.some.injEq] at h; subst h
          obtain ⟨sh, f, hzz⟩ := isZero_eq' e hz
          simp only [splitValX, ← hee, hzz, evalX, mul_zero, zero_add, ih]
        · simp only [Option.some.injEq] at h; subst h
          simp only [formValX, splitValX, ← hee, ih]

theorem totalX_blockOf (w : String → K) (ρ : Env K) (F : Form) : totalX w ρ (blockOf F) = formValX w ρ F := by
  unfold blockOf
  split
  · rename_i h
    simp only [List.isEmpty_iff] at h
    simp [totalX, h, formValX]
  · simp [totalX]

theorem tabulateFrom_totalX (w : String → K) (ρ : Env K) (f : Nat → Option Blocks) (g : Nat → K) :
    ∀ (k s : Nat) (xs : List Blocks), tabulateFrom f s k = some xs →
      (∀ i b, f i = some b → totalX w ρ b = g i) → totalLX w ρ xs = ∑ i ∈ range k, g (s + i)
  | 0, s, xs, h, _ => by simp only [tabulateFrom, Option.some.injEq] at h; subst h; simp [totalLX]
  | k + 1, s, xs, h, hg => by
    simp only [tabulateFrom] at h
    cases hb : f s with
    | none => rw [hb] at h; cases h
    | some b =>
      cases hr : tabulateFrom f (s + 1) k with
      | none => rw [hb, hr] at h; cases h
      | some r =>
        rw [hb, hr] at h
        simp only [Option.some.injEq] at h; subst h
        have ih := tabulateFrom_totalX w ρ f g k (s + 1) r hr hg
        rw [Finset.sum_range_succ', totalLX, ih, hg s b hb]
        simp only [Nat.add_zero]
        rw [add_comm]
        congr 1
        apply Finset.sum_congr rfl
        intro i _; congr 1; omega

theorem tabulate_totalX (w : String → K) (ρ : Env K) (f : Nat → Option Blocks) (g : Nat → K) (n : Nat) (xs : List Blocks)
    (h : tabulate n f = some xs) (hg : ∀ i b, f i = some b → totalX w ρ b = g i) : totalLX w ρ xs = ∑ i ∈ range n, g i := by
  have := tabulateFrom_totalX w ρ f g n 0 xs h hg
  simpa using this

/-- the value of the `n x m` grid of blocks the loops of `extract_blocks` build -/
theorem grid_totalX (w : String → K) (ρ : Env K) (fx : Bool) (cfg : SplitCfg) (F : Form) (n m : Nat) (rows : List Blocks)
    (h : tabulate n (fun pi => (tabulate m (fun pj => (splitFormFS fx plainRb cfg (some pi) (some pj) F).map blockOf)).map .tup) = some rows) :
    totalLX w ρ rows = ∑ i ∈ range n, ∑ j ∈ range m, splitValX w ρ fx (cfgAt cfg (some i) (some j)) F := by
  apply tabulate_totalX w ρ _ _ n rows h
  intro i b hb
  simp only [Option.map_eq_some_iff] at hb
  obtain ⟨cols, hc, rfl⟩ := hb
  simp only [totalX]
  apply tabulate_totalX w ρ _ _ m cols hc
  intro j b hb
  simp only [Option.map_eq_some_iff] at hb
  obtain ⟨F', hF, rfl⟩ := hb
  rw [totalX_blockOf]
  exact mapIntegrands_valX w ρ fx (cfgAt cfg (some i) (some j)) F F' hF

/-- the value of the column of blocks built for a linear form -/
theorem column_totalX (w : String → K) (ρ : Env K) (fx : Bool) (cfg : SplitCfg) (F : Form) (n : Nat) (xs : List Blocks)
    (h : tabulate n (fun pi => (splitFormFS fx plainRb cfg (some pi) none F).map blockOf) = some xs) :
    totalLX w ρ xs = ∑ i ∈ range n, splitValX w ρ fx (cfgAt cfg (some i) none) F := by
  apply tabulate_totalX w ρ _ _ n xs h
  intro i b hb
  simp only [Option.map_eq_some_iff] at hb
  obtain ⟨F', hF, rfl⟩ := hb
  rw [totalX_blockOf]
  exact mapIntegrands_valX w ρ fx (cfgAt cfg (some i) none) F F' hF

/-- every integrand of the form is a well-formed scalar, admissible for every block, linear in the test
    arguments and linear in the trial arguments -/
def BilinearFormG (fx : Bool) (cfg : SplitCfg) (A : List TermData) (F : Form) : Prop :=
  ∀ I ∈ F, WF I.integrand = true ∧ shape I.integrand = [] ∧ (∀ i j, Adm (some 0) fx (cfgAt cfg i j) A I.integrand = true) ∧
    LinIn (argP A 0) I.integrand = true ∧ LinIn (argP A 1) I.integrand = true

def LinearFormG (fx : Bool) (cfg : SplitCfg) (A : List TermData) (F : Form) : Prop :=
  ∀ I ∈ F, WF I.integrand = true ∧ shape I.integrand = [] ∧ (∀ i j, Adm (some 0) fx (cfgAt cfg i j) A I.integrand = true) ∧
    LinIn (argP A 0) I.integrand = true

theorem splitVal_sum2X (w : String → K) (ρ : Env K) (hρ : AdditiveOps ρ) (fx : Bool) (cfg : SplitCfg) (A : List TermData) (hA : TwoArgs A)
    (ι₀ : IdxEnv) (n m : Nat) : ∀ (F : Form), BilinearFormG fx cfg A F →
    ∑ i ∈ range n, ∑ j ∈ range m, splitValX w ρ fx (cfgAt cfg (some i) (some j)) F = formVal w (asmEnvG ρ cfg A ι₀ n m) F
  | [], _ => by simp [splitValX, formVal]
  | I :: rest, h => by
    have hI := h I (by simp)
    have ih := splitVal_sum2X w ρ hρ fx cfg A hA ι₀ n m rest (fun J hJ => h J (by simp [hJ]))
    simp only [splitValX, formVal, Finset.sum_add_distrib, ← Finset.mul_sum, ih]
    rw [C22_sum_grad ρ hρ fx cfg A hA ι₀ .none (fun _ => 0) I.integrand [] n m hI.1 (fun i j => hI.2.2.1 (some i) (some j))
      (by simp [hI.2.1]) hI.2.2.2.1 hI.2.2.2.2]

theorem splitVal_sum1X (w : String → K) (ρ : Env K) (hρ : AdditiveOps ρ) (fx : Bool) (cfg : SplitCfg) (A : List TermData) (hA : OneArg A)
    (ι₀ : IdxEnv) (n : Nat) (j : Nat → Option Nat) : ∀ (F : Form), LinearFormG fx cfg A F →
    ∑ i ∈ range n, splitValX w ρ fx (cfgAt cfg (some i) (j i)) F = formVal w (asmEnv1G ρ cfg A ι₀ n) F
  | [], _ => by simp [splitValX, formVal]
  | I :: rest, h => by
    have hI := h I (by simp)
    have ih := splitVal_sum1X w ρ hρ fx cfg A hA ι₀ n j rest (fun J hJ => h J (by simp [hJ]))
    simp only [splitValX, formVal, Finset.sum_add_distrib, ← Finset.mul_sum, ih]
    rw [C22_sum_linear_grad ρ hρ fx cfg A hA ι₀ .none (fun _ => 0) I.integrand [] n j hI.1 (fun i => hI.2.2.1 (some i) (j i))
      (by simp [hI.2.1]) hI.2.2.2]

/-- **C22 (extract_blocks, bilinear form on `MixedElement` spaces, repaired code; gradients of the mixed arguments
    allowed).**  `C22_extract_blocks_bilinear_fixed` with the blocks read in the semantics extended by the componentwise
    gradient: e.g. a Stokes system on a Taylor–Hood element. -/
theorem C22_extract_blocks_bilinear_fixed_grad (w : String → K) (ρ : Env K) (hρ : AdditiveOps ρ) (fx : Bool) (cfg : SplitCfg)
    (A : List TermData) (hA : TwoArgs A) (ι₀ : IdxEnv) (F : Form) (B : Blocks) (dv du : TermData)
    (hargs : F.arguments = [dv, du]) (hdv : dv.count = 0 ∧ dv.part = -1) (hdu : du.count = 1 ∧ du.part = -1)
    (hmixed : ¬((cfg.subsOf dv.key).length = 0 ∧ (cfg.subsOf du.key).length = 0))
    (hF : BilinearFormG fx cfg A F)
    (h : extractBlocks true fx plainRb cfg F none none none = some B) :
    totalX w ρ B = formVal w (asmEnvG ρ cfg A ι₀ (max (cfg.subsOf dv.key).length 1) (max (cfg.subsOf du.key).length 1)) F := by
  have har : F.arity = 2 := by simp [Form.arity, hargs, hdv.1, hdu.1, dedupNat]
  have hparts : F.parts = [] := by simp [Form.parts, hargs, hdv.2, hdu.2, dedupNat]
  unfold extractBlocks at h
  simp only [Option.isNone_none, Option.isSome_none, Bool.and_false, Bool.false_eq_true, ↓reduceIte, har, hparts,
    List.isEmpty_nil, Bool.and_self, hargs, List.map_cons, List.map_nil] at h
  have hall : ([(cfg.subsOf dv.key).length, (cfg.subsOf du.key).length].all fun x => x == 0) = false := by
    simp only [List.all_cons, List.all_nil, Bool.and_true, Bool.and_eq_false_imp, beq_iff_eq, beq_eq_false_iff_ne]
    intro h0 h1; exact hmixed ⟨h0, h1⟩
  simp only [hall, gt_iff_lt, Nat.lt_irrefl, ↓reduceIte, Bool.false_eq_true, List.getElem?_cons_zero, List.getElem?_cons_succ,
    show ((2 : Nat) == 0) = false from rfl, show ((2 : Nat) == 1) = false from rfl, Option.map_eq_some_iff] at h
  obtain ⟨rows, hrows, rfl⟩ := h
  simp only [totalX]
  rw [grid_totalX w ρ fx cfg F _ _ rows hrows]
  exact splitVal_sum2X w ρ hρ fx cfg A hA ι₀ _ _ F hF

/-- **C22 (extract_blocks, linear form on a `MixedElement` space, repaired code; gradients of the mixed argument allowed).** -/
theorem C22_extract_blocks_linear_fixed_grad (w : String → K) (ρ : Env K) (hρ : AdditiveOps ρ) (fx : Bool) (cfg : SplitCfg)
    (A : List TermData) (hA : OneArg A) (ι₀ : IdxEnv) (F : Form) (B : Blocks) (dv : TermData)
    (hargs : F.arguments = [dv]) (hdv : dv.count = 0 ∧ dv.part = -1) (hmixed : (cfg.subsOf dv.key).length ≠ 0)
    (hF : LinearFormG fx cfg A F)
    (h : extractBlocks true fx plainRb cfg F none none none = some B) :
    totalX w ρ B = formVal w (asmEnv1G ρ cfg A ι₀ (max (cfg.subsOf dv.key).length 1)) F := by
  have har : F.arity = 1 := by simp [Form.arity, hargs, dedupNat]
  have hparts : F.parts = [] := by simp [Form.parts, hargs, hdv.2, dedupNat]
  unfold extractBlocks at h
  simp only [Option.isNone_none, Option.isSome_none, Bool.and_false, Bool.false_eq_true, ↓reduceIte, har, hparts,
    List.isEmpty_nil, Bool.and_self, hargs, List.map_cons, List.map_nil] at h
  have hall : ([(cfg.subsOf dv.key).length].all fun x => x == 0) = false := by
    simp only [List.all_cons, List.all_nil, Bool.and_true, beq_eq_false_iff_ne]; exact hmixed
  simp only [hall, gt_iff_lt, ↓reduceIte, Bool.false_eq_true, List.getElem?_cons_zero,
    show ((1 : Nat) == 0) = false from rfl, show ((1 : Nat) == 1) = true from rfl, show ¬((2 : Nat) < 1) by omega,
    Option.map_eq_some_iff] at h
  obtain ⟨xs, hxs, rfl⟩ := h
  simp only [totalX]
  rw [column_totalX w ρ fx cfg F _ xs hxs]
  exact splitVal_sum1X w ρ hρ fx cfg A hA ι₀ _ (fun _ => none) F hF

/-- **C22 (extract_blocks, the code as it stands, bilinear form on `MixedElement` spaces; gradients of the mixed arguments
    allowed).**  The `n x n` blocks sum to the form under the valuation assembled from `n` rows and `n` columns (the intended one
    iff the trial space is mixed with at most `n` sub-elements, `asmEnvG_more_cols`). -/
theorem C22_extract_blocks_bilinear_current_grad (w : String → K) (ρ : Env K) (hρ : AdditiveOps ρ) (fx : Bool) (cfg : SplitCfg)
    (A : List TermData) (hA : TwoArgs A) (ι₀ : IdxEnv) (F : Form) (B : Blocks) (dv du : TermData)
    (hargs : F.arguments = [dv, du]) (hdv : dv.count = 0 ∧ dv.part = -1) (hdu : du.count = 1 ∧ du.part = -1)
    (hmixed : (cfg.subsOf dv.key).length ≠ 0) (hF : BilinearFormG fx cfg A F)
    (h : extractBlocks false fx plainRb cfg F none none none = some B) :
    totalX w ρ B = formVal w (asmEnvG ρ cfg A ι₀ (cfg.subsOf dv.key).length (cfg.subsOf dv.key).length) F := by
  have har : F.arity = 2 := by simp [Form.arity, hargs, hdv.1, hdu.1, dedupNat]
  have hparts : F.parts = [] := by simp [Form.parts, hargs, hdv.2, hdu.2, dedupNat]
  unfold extractBlocks at h
  simp only [Option.isNone_none, Option.isSome_none, Bool.and_false, Bool.false_eq_true, ↓reduceIte, har, hparts,
    List.isEmpty_nil, Bool.and_self, hargs, List.head?_cons] at h
  have hn : ((cfg.subsOf dv.key).length == 0) = false := by simpa using hmixed
  simp only [hn, gt_iff_lt, Nat.lt_irrefl, ↓reduceIte, Bool.false_eq_true, show ((2 : Nat) == 0) = false from rfl,
    Option.map_eq_some_iff] at h
  obtain ⟨rows, hrows, rfl⟩ := h
  simp only [totalX]
  rw [grid_totalX w ρ fx cfg F _ _ rows hrows]
  exact splitVal_sum2X w ρ hρ fx cfg A hA ι₀ _ _ F hF


theorem evalJetNth_all_zero (ρ : Env K) (side : Side) :
    ∀ (xs : List Expr) (n : Nat) (c ds : List Nat), (∀ x ∈ xs, x = zeroS) → evalJetNth ρ side xs n c ds = 0
  | [], _, _, _, _ => by simp [evalJetNth]
  | x :: xs, 0, c, ds, h => by simp [evalJetNth, h x (by simp), zeroS, evalJet]
  | x :: xs, n + 1, c, ds, h => by
    simp only [evalJetNth]; exact evalJetNth_all_zero ρ side xs n c ds (fun y hy => h y (by simp [hy]))

theorem colG_vanishes (ρ : Env K) (cfg : SplitCfg) (A : List TermData) (m : Nat) (hT : TrialMixed cfg A m)
    (j : Nat) (hj : m ≤ j) (s : Side) (key : String) (hP : argP A 1 key = true) : ∀ c ds, colJG ρ cfg A j s key c ds = 0 := by
  simp only [argP] at hP
  cases hk : argOf A key with
  | none => simp [hk] at hP
  | some d =>
    simp only [hk, beq_iff_eq] at hP
    obtain ⟨hp, hne, hle⟩ := hT key d hk hP
    have himg : splitArgT (cfgAt cfg none (some j)) d =
        .op .listTensor [] (argEntries cfg.replaceArg d (some j) (cfg.subsOf d.key) 0 0) := by
      cases hs : cfg.subsOf d.key with
      | nil => simp [hs] at hne
      | cons x xs => simp [splitArgT, cfgAt, hP, hp, SplitCfg.subsOf] at hs ⊢; simp [SplitCfg.subsOf, hs]
    have hz := argEntries_all_zero cfg.replaceArg d (some j) (cfg.subsOf d.key) 0 0 (fun k hk => by
      simp only [Nat.zero_add, ne_eq, Option.some.injEq]; omega)
    intro c ds
    simp only [colJG, hk, himg]
    cases c with
    | nil => simp [evalJet]
    | cons v c' => simp only [evalJet]; exact evalJetNth_all_zero ρ s _ v c' ds hz

theorem asmEnvG_more_cols (ρ : Env K) (cfg : SplitCfg) (A : List TermData) (ι₀ : IdxEnv) (n m m' : Nat)
    (hT : TrialMixed cfg A m) (hmm : m ≤ m') : asmEnvG ρ cfg A ι₀ n m' = asmEnvG ρ cfg A ι₀ n m := by
  unfold asmEnvG
  congr 1
  cases ρ
  simp only [withP, Env.mk.injEq, and_true]
  constructor
  · funext s key c
    cases hP : argP A 1 key
    · simp
    · simp only [↓reduceIte]
      symm
      apply Finset.sum_subset (Finset.range_mono hmm)
      intro j _ hj
      simp only [Finset.mem_range, not_lt] at hj
      exact (col_vanishes _ cfg A ι₀ m hT j hj s key hP).1 c
  · funext s key c ds
    cases hP : argP A 1 key
    · simp
    · simp only [↓reduceIte]
      symm
      apply Finset.sum_subset (Finset.range_mono hmm)
      intro j _ hj
      simp only [Finset.mem_range, not_lt] at hj
      exact colG_vanishes _ cfg A m hT j hj s key hP c ds

/-- **C22 (extract_blocks, the code as it stands, bilinear form on `MixedElement` spaces, gradients allowed) — partial.**
    Side condition: the trial space is mixed with at most as many sub-elements as the test space. -/
theorem C22_extract_blocks_bilinear_partial_grad (w : String → K) (ρ : Env K) (hρ : AdditiveOps ρ) (fx : Bool) (cfg : SplitCfg)
    (A : List TermData) (hA : TwoArgs A) (ι₀ : IdxEnv) (F : Form) (B : Blocks) (dv du : TermData) (m : Nat)
    (hargs : F.arguments = [dv, du]) (hdv : dv.count = 0 ∧ dv.part = -1) (hdu : du.count = 1 ∧ du.part = -1)
    (hmixed : (cfg.subsOf dv.key).length ≠ 0) (hF : BilinearFormG fx cfg A F)
    (hT : TrialMixed cfg A m) (hsq : m ≤ (cfg.subsOf dv.key).length)
    (h : extractBlocks false fx plainRb cfg F none none none = some B) :
    totalX w ρ B = formVal w (asmEnvG ρ cfg A ι₀ (cfg.subsOf dv.key).length m) F := by
  rw [C22_extract_blocks_bilinear_current_grad w ρ hρ fx cfg A hA ι₀ F B dv du hargs hdv hdu hmixed hF h,
      asmEnvG_more_cols ρ cfg A ι₀ _ m _ hT hsq]

/-- on forms whose integrands are well formed (gradients on chains only) the two readings agree -/
theorem formValX_eq_formVal (w : String → K) (ρ : Env K) : ∀ (F : Form), (∀ I ∈ F, WF I.integrand = true) → formValX w ρ F = formVal w ρ F
  | [], _ => rfl
  | I :: rest, h => by
    simp only [formValX, formVal, (evalX_conservative ρ).1 .none _ I.integrand [] (h I (by simp)),
      formValX_eq_formVal w ρ rest (fun J hJ => h J (by simp [hJ]))]

end gradient

/-! ## 4. the full statement is false of the code as it stands: concrete witnesses (over ℚ) -/

section witnesses

theorem termAdm_cfgAt (cfg : SplitCfg) (i j : Option Nat) (A : List TermData) (d : TermData) :
    termAdm (cfgAt cfg i j) A d = termAdm cfg A d := by
  simp [termAdm, shapeOK, cfgAt, SplitCfg.subsOf]

def ρQ (one : String → Bool) : Env ℚ :=
  { term := fun _ key _ => if one key then 1 else 0, jet := fun _ _ _ _ => 0, fn := fun _ x => x, fn2 := fun _ x _ => x,
    abs := id, conj := id, re := id, im := fun _ => 0, i := 0, lt := fun _ _ => false, eq := fun _ _ => false }

theorem ρQ_additive (one : String → Bool) : AdditiveOps (ρQ one) := ⟨fun _ _ => rfl, fun _ _ => rfl, fun _ _ => by simp [ρQ]⟩

/-- test function on `MixedElement([P^2, P])`: flattened shape (3,) -/
def vW : TermData := { cls := "Argument", key := "v", shape := [3], count := 0, part := -1 }
def cfgW : SplitCfg := { replaceArg := true, idx := [], subs := [("v", [⟨"v0", [2]⟩, ⟨"v1", []⟩])], cellConst := [] }
/-- the linear form `v[2]*dx` -/
def FW : Form := [⟨"dx", .op .indexed [] [.term vW, .mi [.fixed 2]]⟩]
def BW : Blocks := (extractBlocks false false plainRb cfgW FW none none none).getD .none

theorem oneArg_vW : OneArg [vW] := by
  intro key d h
  simp only [argOf, List.find?_cons, List.find?_nil] at h
  split at h
  · simp only [Option.some.injEq] at h; subst h; rfl
  · cases h

theorem linearForm_FW : LinearForm false cfgW [vW] FW := by
  intro I hI
  simp only [FW, List.mem_cons, List.not_mem_nil, or_false] at hI
  subst hI
  refine ⟨by decide, by decide, ?_, by decide⟩
  intro i j
  have h1 : termAdm (cfgAt cfgW i j) [vW] vW = true := by rw [termAdm_cfgAt]; decide
  simp only [Adm, h1, Bool.true_and, shortcutOK, Bool.false_or, fixedAll, Option.map_some]
  split
  · rename_i heq; simp only [Option.some.injEq] at heq; subst heq; rfl
  · rfl

/-- **C22 (counterexample, D1).**  The statement "the blocks returned by the all-blocks call sum to the form" is
    false for linear forms on a `MixedElement` space: for `L = v[2]*dx` on `MixedElement([P^2, P])` the code as it
    stands returns `((None, None), (L1, L1))`, whose blocks sum to 2 where the form has the value 1.
    (Replayed on /repo by the oracle of harness/props/c22.py on every linear `MixedElement` case.) -/
theorem C22_extract_blocks_linear_counterexample :
    ¬(∀ (w : String → ℚ) (ρ : Env ℚ) (cfg : SplitCfg) (A : List TermData) (F : Form) (B : Blocks) (dv : TermData),
      AdditiveOps ρ → OneArg A → F.arguments = [dv] → (dv.count = 0 ∧ dv.part = -1) → (cfg.subsOf dv.key).length ≠ 0 →
      LinearForm false cfg A F → extractBlocks false false plainRb cfg F none none none = some B →
      total w ρ B = formVal w (asmEnv1 ρ cfg A (fun _ => 0) (cfg.subsOf dv.key).length) F) := by
  intro H
  have := H (fun _ => 1) (ρQ (· == "v1")) cfgW [vW] FW BW vW (ρQ_additive _) oneArg_vW (by decide) (by decide) (by decide)
    linearForm_FW rfl
  revert this
  decide +kernel

/-- the same form through the repaired code: one block per sub-element, summing to the form -/
example : total (fun _ => (1 : ℚ)) (ρQ (· == "v1")) ((extractBlocks true false plainRb cfgW FW none none none).getD .none)
    = formVal (fun _ => 1) (asmEnv1 (ρQ (· == "v1")) cfgW [vW] (fun _ => 0) 2) FW := by decide +kernel

/-- test function on `MixedElement([P])` (one sub-element), trial function on `MixedElement([P, P])` -/
def vR : TermData := { cls := "Argument", key := "v", shape := [1], count := 0, part := -1 }
def uR : TermData := { cls := "Argument", key := "u", shape := [2], count := 1, part := -1 }
def cfgR : SplitCfg :=
  { replaceArg := true, idx := [], subs := [("v", [⟨"v0", []⟩]), ("u", [⟨"u0", []⟩, ⟨"u1", []⟩])], cellConst := [] }
/-- the bilinear form `u[1]*v[0]*dx` -/
def FR : Form := [⟨"dx", .op .product [] [.op .indexed [] [.term uR, .mi [.fixed 1]], .op .indexed [] [.term vR, .mi [.fixed 0]]]⟩]
def BR : Blocks := (extractBlocks false false plainRb cfgR FR none none none).getD .none

theorem twoArgs_R : TwoArgs [vR, uR] := by
  intro key d h
  simp only [argOf, List.find?_cons, List.find?_nil] at h
  split at h
  · simp only [Option.some.injEq] at h; subst h; exact Or.inl rfl
  · split at h
    · simp only [Option.some.injEq] at h; subst h; exact Or.inr rfl
    · cases h

theorem bilinearForm_FR : BilinearForm false cfgR [vR, uR] FR := by
  intro I hI
  simp only [FR, List.mem_cons, List.not_mem_nil, or_false] at hI
  subst hI
  refine ⟨by decide, by decide, ?_, by decide, by decide⟩
  intro i j
  have h1 : termAdm (cfgAt cfgR i j) [vR, uR] vR = true := by rw [termAdm_cfgAt]; decide
  have h2 : termAdm (cfgAt cfgR i j) [vR, uR] uR = true := by rw [termAdm_cfgAt]; decide
  simp only [Adm, AdmL, h1, h2, Bool.true_and, Bool.and_true, shortcutOK, Bool.false_or, fixedAll, Option.map_some, Bool.and_eq_true]
  constructor <;> (split; (· rename_i heq; simp only [Option.some.injEq] at heq; subst heq; rfl); (· rfl))

/-- **C22 (counterexample, D2).**  With a trial space that has more sub-elements than the test space the all-blocks
    call misses the blocks of the last trial sub-spaces: for `a = u[1]*v[0]*dx` (test space with one, trial space with
    two sub-elements) the code as it stands returns the single block (0, 0), which is empty in value, while the
    form has the value 1.  (Replayed on /repo by the directed kind `rect`.) -/
theorem C22_extract_blocks_rect_counterexample :
    ¬(∀ (w : String → ℚ) (ρ : Env ℚ) (cfg : SplitCfg) (A : List TermData) (F : Form) (B : Blocks) (dv du : TermData),
      AdditiveOps ρ → TwoArgs A → F.arguments = [dv, du] → (dv.count = 0 ∧ dv.part = -1) → (du.count = 1 ∧ du.part = -1) →
      (cfg.subsOf dv.key).length ≠ 0 → BilinearForm false cfg A F →
      extractBlocks false false plainRb cfg F none none none = some B →
      total w ρ B = formVal w (asmEnv ρ cfg A (fun _ => 0) (cfg.subsOf dv.key).length (cfg.subsOf du.key).length) F) := by
  intro H
  have := H (fun _ => 1) (ρQ (fun k => k == "v0" || k == "u1")) cfgR [vR, uR] FR BR vR uR (ρQ_additive _) twoArgs_R
    (by decide) (by decide) (by decide) (by decide) bilinearForm_FR rfl
  revert this
  decide +kernel

/-- the same form through the repaired code: 1 x 2 blocks, summing to the form -/
example : total (fun _ => (1 : ℚ)) (ρQ (fun k => k == "v0" || k == "u1")) ((extractBlocks true false plainRb cfgR FR none none none).getD .none)
    = formVal (fun _ => 1) (asmEnv (ρQ (fun k => k == "v0" || k == "u1")) cfgR [vR, uR] (fun _ => 0) 1 2) FR := by decide +kernel

/-- an all-fixed `Indexed` node with two indices on a 2 x 2 list tensor of components of `v` -/
def eS : Expr :=
  .op .indexed [] [.op .listTensor [] [
    .op .listTensor [] [.op .indexed [] [.term vW, .mi [.fixed 0]], .op .indexed [] [.term vW, .mi [.fixed 1]]],
    .op .listTensor [] [.op .indexed [] [.term vW, .mi [.fixed 1]], .op .indexed [] [.term vW, .mi [.fixed 2]]]],
    .mi [.fixed 0, .fixed 1]]

/-- **C22 (counterexample, D3).**  `C22_block_value` without the side condition on the `indexed` shortcut is false of
    the code as it stands: on `[[v[0], v[1]], [v[1], v[2]]][0, 1]` the handler returns the whole 2 x 2 list tensor
    (`len(indices) == len(child.ufl_operands)` and the indices are 0, 1): the block is tensor valued, and its
    scalar value is 0 where the integrand has the value of `v[1]`.  (On /repo the operand has to *become* a list
    tensor — `Indexed.__new__` folds a literal one — which is what the directed kinds `shortcut_rank2` /
    `shortcut_cond` arrange; the model returns the same trees there.) -/
theorem C22_indexed_shortcut_counterexample :
    ¬(∀ (ρ : Env ℚ) (cfg : SplitCfg) (A : List TermData) (e : Expr), WF e = true → shape e = [] →
        (∀ d ∈ argTerms e, termAdm cfg A d = true) →
        shape (fsT false cfg e) = [] ∧ eval ρ .none (fun _ => 0) (fsT false cfg e) [] = eval (imgEnv ρ cfg A (fun _ => 0)) .none (fun _ => 0) e []) := by
  intro H
  have := H (ρQ (· == "v0")) (cfgAt cfgW (some 0) none) [vW] eS (by decide) (by decide) (by decide)
  revert this
  decide +kernel

/-- the repaired handler returns the entry: the theorem applies (`Adm true` has no shortcut condition) -/
example : Adm none true (cfgAt cfgW (some 0) none) [vW] eS = true ∧ shape (fsT true (cfgAt cfgW (some 0) none) eS) = [] := by decide

end witnesses

/-! ## 5. the hypotheses are satisfiable by non-trivial instances -/

section examples

/-- `MixedFunctionSpace(V0, V1)`, a bilinear form with gradients and a restriction:
    `a = (grad(u0)[0] * v0 + u1('+') * grad(v1)[1] * f) ` -/
def v0 : TermData := { cls := "Argument", key := "v0", shape := [], count := 0, part := 0 }
def v1 : TermData := { cls := "Argument", key := "v1", shape := [], count := 0, part := 1 }
def u0 : TermData := { cls := "Argument", key := "u0", shape := [], count := 1, part := 0 }
def u1 : TermData := { cls := "Argument", key := "u1", shape := [], count := 1, part := 1 }
def fC : TermData := { cls := "Coefficient", key := "f", shape := [] }
def cfgM : SplitCfg := { replaceArg := true, idx := [], subs := [], cellConst := [] }
def AM : List TermData := [v0, v1, u0, u1]
def eM : Expr :=
  .op .sum [] [
    .op .product [] [.op .indexed [] [.op .grad [2] [.term u0], .mi [.fixed 0]], .term v0],
    .op .product [] [.op .product [] [.op .positiveRestricted [] [.term u1], .op .indexed [] [.op .grad [2] [.term v1], .mi [.fixed 1]]], .term fC]]

example : WF eM = true ∧ shape eM = [] ∧ LinIn (argP AM 0) eM = true ∧ LinIn (argP AM 1) eM = true := by decide
example : Adm none false (cfgAt cfgM (some 1) (some 0)) AM eM = true ∧ Adm none true (cfgAt cfgM (some 0) (some 1)) AM eM = true := by decide
/-- block (1, 1) keeps the second term only, block (0, 1) is zero in value -/
example : beq (fsT false (cfgAt cfgM (some 1) (some 1)) eM)
    (.op .sum [] [
      .op .product [] [.op .indexed [] [.op .grad [2] [.zero [] []], .mi [.fixed 0]], .zero [] []],
      .op .product [] [.op .product [] [.op .positiveRestricted [] [.term u1], .op .indexed [] [.op .grad [2] [.term v1], .mi [.fixed 1]]], .term fC]]) = true := by
  decide

/-- the mixed-element instance of the witnesses satisfies the hypotheses of the theorems for the repaired code -/
example : LinearForm true cfgW [vW] FW := by
  intro I hI
  simp only [FW, List.mem_cons, List.not_mem_nil, or_false] at hI
  subst hI
  refine ⟨by decide, by decide, ?_, by decide⟩
  intro i j
  have h1 : termAdm (cfgAt cfgW i j) [vW] vW = true := by rw [termAdm_cfgAt]; decide
  simp only [Adm, h1, Bool.true_and, shortcutOK, Bool.true_or]

/-- a Taylor–Hood-like instance with gradients of the MIXED arguments: `a = grad(u)[0,1] * grad(v)[0,1]` on
    `MixedElement([P^2, P])` x `MixedElement([P^2, P])`; the hypotheses of `C22_block_value_grad` / `C22_sum_grad`
    hold, and on a concrete valuation the 2 x 2 blocks add up to the value 6 of the integrand -/
def uW : TermData := { cls := "Argument", key := "u", shape := [3], count := 1, part := -1 }
def cfgT : SplitCfg :=
  { replaceArg := true, idx := [], subs := [("v", [⟨"v0", [2]⟩, ⟨"v1", []⟩]), ("u", [⟨"u0", [2]⟩, ⟨"u1", []⟩])], cellConst := [] }
def eT : Expr :=
  .op .product [] [.op .indexed [] [.op .grad [2] [.term uW], .mi [.fixed 0, .fixed 1]],
                   .op .indexed [] [.op .grad [2] [.term vW], .mi [.fixed 0, .fixed 1]]]
def ρJ : Env ℚ :=
  { ρQ (fun _ => false) with
    jet := fun _ key c ds => if key == "u0" && c == [0] && ds == [1] then 2 else if key == "v0" && c == [0] && ds == [1] then 3 else 0 }

example : WF eT = true ∧ Adm (some 0) false (cfgAt cfgT (some 0) (some 1)) [vW, uW] eT = true ∧
    Adm none false (cfgAt cfgT (some 0) (some 1)) [vW, uW] eT = false ∧
    LinIn (argP [vW, uW] 0) eT = true ∧ LinIn (argP [vW, uW] 1) eT = true := by decide
example : (∑ i ∈ range 2, ∑ j ∈ range 2, evalX ρJ .none (fun _ => 0) (fsT false (cfgAt cfgT (some i) (some j)) eT) []) = 6 ∧
    eval (asmEnvG ρJ cfgT [vW, uW] (fun _ => 0) 2 2) .none (fun _ => 0) eT [] = 6 := by decide +kernel

end examples

end UflVerif.C22
