/-
C23 over the complex numbers: the abstract hypotheses of Props/C23.lean are satisfied by ℂ with its
standard functions, and the full statement fails for the code as it stands because the principal
logarithm of a negative real is not real.
-/
import Mathlib.Analysis.SpecialFunctions.Complex.Log
import Mathlib.Analysis.SpecialFunctions.Pow.Complex
import UflVerif.Props.C23

namespace UflVerif.C23
open UflVerif Expr

/-- "is a real number" in ℂ -/
def IsRe (z : ℂ) : Prop := z.im = 0

/-- complex-mode valuation: standard complex functions; `term` gives the values of the terminals -/
noncomputable def cEnv (t : Side → String → List Nat → ℂ) : Env ℂ where
  term := t
  jet := fun _ _ _ _ => 0
  fn := fun n z =>
    if n = "Ln" then Complex.log z else if n = "Exp" then Complex.exp z
    else if n = "Sin" then Complex.sin z else if n = "Cos" then Complex.cos z
    else if n = "Tan" then Complex.tan z else if n = "Sinh" then Complex.sinh z
    else if n = "Cosh" then Complex.cosh z else if n = "Tanh" then Complex.tanh z
    else if n = "Sqrt" then z ^ (1 / 2 : ℂ) else 0
  fn2 := fun n x y => if n = "Power" then x ^ y else 0
  abs := fun z => ((‖z‖ : ℝ) : ℂ)
  conj := starRingEnd ℂ
  re := fun z => (z.re : ℂ)
  im := fun z => (z.im : ℂ)
  i := Complex.I
  lt := fun a b => decide (a.re < b.re)
  eq := fun a b => decide (a = b)

theorem cEnv_realStruct (t : Side → String → List Nat → ℂ) : RealStruct (cEnv t) IsRe where
  zero := by simp [IsRe]
  one := by simp [IsRe]
  intCast := by intro n; simp [IsRe]
  natCast := by intro n; simp [IsRe]
  add := by intro x y hx hy; simp_all [IsRe]
  mul := by intro x y hx hy; simp_all [IsRe]
  div := by intro x y hx hy; simp_all [IsRe, Complex.div_im]
  abs := by intro x; simp [IsRe, cEnv]
  re := by intro x; simp [IsRe, cEnv]
  im := by intro x; simp [IsRe, cEnv]
  re_id := by intro x hx; apply Complex.ext <;> simp_all [IsRe, cEnv]
  conj_id := by intro x hx; simp only [cEnv]; exact Complex.conj_eq_iff_im.mpr hx
  pow_int := by
    intro x n hx
    simp only [cEnv, ↓reduceIte, IsRe]
    have : x = (x.re : ℂ) := by apply Complex.ext <;> simp_all [IsRe]
    rw [this, Complex.cpow_intCast, ← Complex.ofReal_zpow]
    exact Complex.ofReal_im _
  atan2 := by intro x y _ _; simp [IsRe, cEnv]

theorem cEnv_fnReal (t : Side → String → List Nat → ℂ) : FnReal (cEnv t) IsRe totalRealFns := by
  intro n hn x hx
  have hx' : x = (x.re : ℂ) := by apply Complex.ext <;> simp_all [IsRe]
  simp only [totalRealFns, List.mem_cons, List.not_mem_nil, or_false] at hn
  rcases hn with rfl | rfl | rfl | rfl | rfl | rfl | rfl | rfl | rfl <;> simp only [cEnv, IsRe] <;> rw [hx'] <;> simp

/-- every terminal takes the value -1 -/
noncomputable def exEnv : Env ℂ := cEnv (fun _ _ _ => -1)

mutual
theorem exEnv_realEnv : ∀ e : Expr, RealEnv exEnv IsRe e
  | .int _ | .real _ _ | .cplx _ _ _ _ | .zero _ _ | .mi _ => by simp [RealEnv]
  | .term d => by simp [RealEnv, exEnv, cEnv, IsRe]
  | .op k x as => by simp only [RealEnv]; exact exEnv_realEnvL as
theorem exEnv_realEnvL : ∀ as : List Expr, RealEnvL exEnv IsRe as
  | [] => trivial
  | a :: as => ⟨exEnv_realEnv a, exEnv_realEnvL as⟩
end

def exX0 : Expr := .op .indexed [] [.term { cls := "SpatialCoordinate", key := "x", shape := [2] }, .mi [.fixed 0]]
def exLn : Expr := .op .ln [] [exX0]
/-- `conditional(ln(x[0]) < 1, 1, 2)` -/
def exCond : Expr := .op .conditional [] [.op .lT [] [exLn, .int 1], .int 1, .int 2]
/-- `min_value(ln(x[0]), 1)` -/
def exMin : Expr := .op .minValue [] [exLn, .int 1]

theorem realCls_x : realCls "SpatialCoordinate" = true := by decide +kernel

theorem exMin_wrap : wrapE exMin = some (.op .minValue [] [.op .real [] [exLn], .int 1], .bool) := by
  simp [wrapE, exMin, exLn, exX0, checkWith, checkL, checkNode, checkHandlerG, plainRb, reuse, realOf, mkReal, mkLit, termTy,
    realCls_x, beqL, beq, joinTy]

theorem exCond_wrap : wrapE exCond =
    some (.op .conditional [] [.op .lT [] [.op .real [] [exLn], .int 1], .int 1, .int 2], .real) := by
  simp [wrapE, exCond, exLn, exX0, checkWith, checkL, checkNode, checkHandlerG, plainRb, reuse, realOf, mkReal, mkLit, termTy,
    realCls_x, beqL, beq, joinTy]

theorem exLn_val (side : Side) (ι : IdxEnv) : eval exEnv side ι exLn [] = Complex.log (-1) := by
  simp [exLn, exX0, eval, mathName, exEnv, cEnv, Idx.resolve]

theorem log_neg_one_not_real : ¬ IsRe (Complex.log (-1)) := by
  simp [IsRe, Complex.log_neg_one, Real.pi_ne_zero]

/-- **The full statement is false of the code as it stands** (statement: "every operand of every
    ordering comparison the check accepts is real-valued whenever arguments and geometry are real",
    and "a node typed real is real-valued").  Witness: `conditional(ln(x[0]) < 1, 1, 2)` with
    `x[0] = -1`, the standard complex logarithm: the check accepts it and types `ln(x[0])` real,
    but `ln(-1) = iπ`. -/
theorem C23_accepts_complex_operand_counterexample :
    ∃ (ρ : Env ℂ) (e e' : Expr) (τ : Ty), RealStruct ρ IsRe ∧ RealEnv ρ IsRe e ∧ FnReal ρ IsRe totalRealFns ∧
      ρ.fn "Ln" = Complex.log ∧ WF e = true ∧ wrapE e = some (e', τ) ∧
      ∃ a b, Sub (.op .lT [] [a, b]) e ∧ ¬ IsRe (eval ρ .none (fun _ => 0) a []) := by
  refine ⟨exEnv, exCond, _, _, cEnv_realStruct _, exEnv_realEnv _, cEnv_fnReal _, ?_, by decide, exCond_wrap, exLn, .int 1, ?_, ?_⟩
  · funext z; simp [exEnv, cEnv]
  · exact Sub.step _ _ _ _ _ (Sub.refl _) (by simp [exCond])
  · rw [exLn_val]; exact log_neg_one_not_real

/-- the same witness against the soundness of the types: `ln(x[0])` is typed real -/
theorem C23_types_sound_counterexample :
    ∃ (ρ : Env ℂ) (e e' : Expr), RealStruct ρ IsRe ∧ RealEnv ρ IsRe e ∧ FnReal ρ IsRe totalRealFns ∧ WF e = true ∧
      wrapE e = some (e', .real) ∧ ¬ IsRe (eval ρ .none (fun _ => 0) e []) := by
  refine ⟨exEnv, exLn, exLn, cEnv_realStruct _, exEnv_realEnv _, cEnv_fnReal _, by decide, ?_, ?_⟩
  · simp [wrapE, exLn, exX0, checkWith, checkL, checkNode, checkHandlerG, plainRb, reuse, termTy, realCls_x, beqL, beq, joinTy]
  · rw [exLn_val]; exact log_neg_one_not_real

/-- ... and against "wrapping does not change the value for real data": all data real (`x[0] = -1`),
    `min_value(ln(x[0]), 1)` has the value `iπ` before the check and `0` after it. -/
theorem C23_check_changes_value_counterexample :
    ∃ (ρ : Env ℂ) (e e' : Expr) (τ : Ty), RealStruct ρ IsRe ∧ RealEnv ρ IsRe e ∧ FnReal ρ IsRe totalRealFns ∧ WF e = true ∧
      wrapE e = some (e', τ) ∧ eval ρ .none (fun _ => 0) e' [] ≠ eval ρ .none (fun _ => 0) e [] := by
  refine ⟨exEnv, exMin, _, _, cEnv_realStruct _, exEnv_realEnv _, cEnv_fnReal _, by decide, exMin_wrap, ?_⟩
  have h1 : eval exEnv .none (fun _ => 0) (.op .minValue [] [.op .real [] [exLn], .int 1]) [] = 0 := by
    simp only [eval, exLn_val]
    simp [exEnv, cEnv, Complex.log_neg_one]
  have h2 : eval exEnv .none (fun _ => 0) exMin [] = Complex.log (-1) := by
    simp only [exMin, eval, exLn_val]
    simp [exEnv, cEnv, Complex.log_neg_one]
  rw [h1, h2]
  intro h
  exact log_neg_one_not_real (by rw [← h]; simp [IsRe])

/-- the hypotheses of the `_partial` theorems are met by a non-trivial instance: complex-valued
    coefficient `f = 2 + 3i`, real `x`, the integrand `conditional(x[0]² < |f|, f, exp(x[0]))` -/
noncomputable def okEnv : Env ℂ := cEnv (fun _ key _ => if key = "f" then ⟨2, 3⟩ else -1)
def okF : Expr := .term { cls := "Coefficient", key := "f", shape := [] }
def okE : Expr := .op .conditional [] [.op .lT [] [.op .power [] [exX0, .int 2], .op .abs [] [okF]], okF, .op .exp [] [exX0]]

theorem realCls_coeff : realCls "Coefficient" = false := by decide +kernel

example : RealStruct okEnv IsRe ∧ FnReal okEnv IsRe totalRealFns ∧ WF okE = true ∧ SafeFns false okE = true :=
  ⟨cEnv_realStruct _, cEnv_fnReal _, by decide, by decide⟩

example : RealEnv okEnv IsRe okE := by
  simp [RealEnv, RealEnvL, okE, okF, exX0, realCls_coeff, okEnv, cEnv, IsRe]

/-- ... and `f` really is complex-valued in that valuation -/
example : ¬ IsRe (eval okEnv .none (fun _ => 0) okF []) := by
  simp [okF, eval, okEnv, cEnv, IsRe]

example : ∃ e', wrapE okE = some (e', .complex) ∧ e' ≠ okE := by
  refine ⟨.op .conditional [] [.op .lT [] [.op .real [] [.op .power [] [exX0, .int 2]], .op .real [] [.op .abs [] [okF]]], okF, .op .exp [] [exX0]], ?_, ?_⟩
  · simp [wrapE, okE, okF, exX0, checkWith, checkL, checkNode, checkHandlerG, plainRb, reuse, realOf, mkReal, termTy,
      realCls_x, realCls_coeff, beqL, beq, joinTy, intExponent, floatLit]
  · simp [okE]

/-- a comparison with a coefficient operand is rejected -/
example : checkE (.op .conditional [] [.op .lT [] [okF, .int 1], .int 1, .int 2]) = none := by
  simp [checkE, okF, checkWith, checkL, checkNode, checkHandlerG, termTy, realCls_coeff]

end UflVerif.C23
