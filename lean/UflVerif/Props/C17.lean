/-
C17  Restriction propagation preserves two-sided integrands.

  "On interior facet integrals, propagating restrictions to terminals yields an integrand whose value
   equals the original for every pair of cell-side values consistent with continuity (continuous
   coefficients and coordinates agree across the facet, the facet normal flips sign on affine
   non-manifold meshes); every side-dependent terminal ends up restricted exactly once, and missing or
   double restrictions are rejected."

Model       `Model/Restrictions.lean`: `applyE` = `RestrictionPropagator`; which rule a class gets is
            read from the regenerated `Gen/Restrictions.lean` (`genRule`).
Semantics   `Sem/TwoSided.lean`: `den S s e`, an arbitrary compositional interpretation `S` (meanings
            may be values at the facet point or whole functions on the cell of a side); only the
            meaning of the restrictions is fixed.  `E` is "same value on the facet".
Statements  are about `propagate` (node reconstruction without constructor simplifications; that the
            constructors preserve values is C05); `applyRestrictions` (with them) is what is compared
            tree-for-tree with the implementation, it accepts only what `propagate` accepts
            (`C17_impl_refines`), and the rejection theorems are proved for both.
Lemmas      `Sem/TwoSidedLemmas.lean`, `Sem/RestrValue.lean`, `Sem/RestrStructure.lean`.
-/
import UflVerif.Sem.RestrValue
import UflVerif.Sem.RestrStructure

namespace UflVerif.C17
open UflVerif Expr Restr

/-! ## the regenerated rule table -/

theorem genRule_forall (P : String → Rule → Prop) (hunk : ∀ c, P c .unknown)
    (hrows : ∀ row ∈ Gen.Restrictions.ruleTable, P row.1 (Rule.ofName row.2.1)) : ∀ c, P c (genRule c) := by
  intro c
  unfold genRule
  cases hf : Gen.Restrictions.ruleTable.find? (fun r => r.1 == c) with
  | none => exact hunk c
  | some r =>
    have hm := List.mem_of_find?_eq_some hf
    have hc : r.1 = c := by simpa using List.find?_some hf
    rw [← hc]
    exact hrows r hm

/-- one pass over the regenerated table: every row meets the conditions of `RuleSound` -/
theorem table_rows_ok : Gen.Restrictions.ruleTable.all (fun row => rowOK row.1 (Rule.ofName row.2.1)) = true := by
  decide +kernel

theorem rowOK_genRule : ∀ c, rowOK c (genRule c) = true :=
  genRule_forall (fun c r => rowOK c r = true) (fun _ => rfl) (fun row hm => List.all_eq_true.mp table_rows_ok row hm)

/-- **C17 (table).**  The rule `RestrictionPropagator` applies to each registered UFL type, as computed
    by the class itself on this run, is compatible with the continuity classification of the property:
    only side-free classes are left alone, only classes with one value on the facet get the default
    side, `_opposite` is reached only through `facet_normal`, the rules with a body of their own are
    attached to the class they are written for, both restriction classes are handled by `restricted`,
    and the only operators restricted as a whole are non-pointwise ones (`Grad`). -/
theorem C17_table_sound : RuleSound genRule where
  ignore_free := fun c h => by have := rowOK_genRule c; rw [h] at this; simpa [rowOK] using this
  default_cont := fun c h => by have := rowOK_genRule c; rw [h] at this; simpa [rowOK] using this
  no_opposite := fun c h => by have := rowOK_genRule c; rw [h] at this; simp [rowOK] at this
  normal_only := fun c h => by have := rowOK_genRule c; rw [h] at this; simpa [rowOK] using this
  coefficient_only := fun c h => by have := rowOK_genRule c; rw [h] at this; simpa [rowOK] using this
  variable_only := fun c h => by have := rowOK_genRule c; rw [h] at this; simpa [rowOK] using this
  refvalue_only := fun c h => by have := rowOK_genRule c; rw [h] at this; simpa [rowOK] using this
  restricted_pos := by decide +kernel
  restricted_neg := by decide +kernel
  require_nonlocal := fun c h => by have := rowOK_genRule c; rw [h] at this; simpa [rowOK] using this

/-- **C17 (table, classes).**  Every terminal class gets a terminal rule and every operator class an
    operator rule (so `Proper genRule` holds of every serialised UFL expression), and every class is
    given a known rule (or none at all: `undefined`, for abstract non-expression types). -/
theorem C17_table_classes :
    ∀ row ∈ Gen.Restrictions.ruleTable,
      (row.2.2.2.1 = true → termRuleOK (Rule.ofName row.2.1) = true) ∧
      (row.2.2.2.1 = false → opRuleOK (Rule.ofName row.2.1) = true) ∧
      (Rule.ofName row.2.1 ≠ .unknown ∨ row.2.1 = "undefined") := by
  decide +kernel

/-- **C17 (default map).**  `default_restriction_map`: the three interior-facet integral types default
    to '+', every other integral type has no default side. -/
theorem C17_default_map :
    Gen.Restrictions.defaultRestrictionMap.map (fun p => (p.1, p.2 == some "+", p.2 == none)) =
      [("cell", false, true), ("exterior_facet", false, true), ("exterior_facet_bottom", false, true),
       ("exterior_facet_top", false, true), ("exterior_facet_vert", false, true),
       ("interior_facet", true, false), ("interior_facet_horiz", true, false), ("interior_facet_vert", true, false)] := by
  decide +kernel

/-! ## value -/

/- The full statement would be `C17_value_partial` without the hypothesis `Guarded e`:

     theorem C17_value (S) (E) (cfg) (table) (hdr : cfg.dr = some table) (hc : Continuity S E cfg table)
         (hr : RuleSound cfg.rule) (e e') (hp : Proper cfg.rule e = true)
         (h : propagate cfg e = some e') (s s') (hs : s ≠ .none) (hs' : s' ≠ .none) :
         E (den S s' e') (den S s e)

   It is false of the current code (`C17_value_counterexample`): a derivative with respect to reference
   coordinates (or a cell average) applied outside every restriction to a continuous quantity is
   accepted and its operand gets the default side, although the derivative differs between the two
   cells (finding 1 of REPORT_C17.md). -/

/-- **C17 (value), default restrictions given.**  For every compositional interpretation `S` and every
    cell-side data consistent with continuity, every accepted integrand `e` in which derivatives and cell
    averages sit under a restriction: the propagated integrand agrees on the facet with `e`, whichever
    side the unrestricted parts of either are read on.  In particular the value of an accepted integrand
    does not depend on that choice (take `e'` fixed), and the result does not either. -/
theorem C17_value_partial {V : Type} (S : Sem V) (E : V → V → Prop) (cfg : Cfg) (table : List (Nat × Side))
    (hdr : cfg.dr = some table) (hc : Continuity S E cfg table) (hr : RuleSound cfg.rule)
    (e e' : Expr) (hp : Proper cfg.rule e = true) (hg : Guarded e = true)
    (h : propagate cfg e = some e') (s s' : Side) (hs : s ≠ .none) (hs' : s' ≠ .none) :
    E (den S s' e') (den S s e) :=
  (value_aux S E cfg table hdr hc hr e .none e' hp h).2 rfl hg s s' hs hs'

/-- **C17 (value under a restriction).**  What stands under a restriction `a(r)` is propagated without
    any premise on derivatives: the result means `a` on side `r` — as a meaning (e.g. a function on the
    cell), not only as a value on the facet — whatever side it is read on. -/
theorem C17_value_restricted {V : Type} (S : Sem V) (E : V → V → Prop) (cfg : Cfg) (table : List (Nat × Side))
    (hdr : cfg.dr = some table) (hc : Continuity S E cfg table) (hr : RuleSound cfg.rule)
    (a a' : Expr) (r : Side) (hr0 : r ≠ .none) (hp : Proper cfg.rule a = true)
    (h : applyE cfg plainRb r a = some a') (s : Side) : den S s a' = den S r a :=
  (value_aux S E cfg table hdr hc hr a r a' hp h).1 hr0 s

/-- **C17 (value), `default_restrictions=None`.**  Pure propagation changes no meaning: for each side
    the unrestricted parts are read on, result and input mean the same (equality of meanings; the
    only premises are that side-free terminals have one meaning and a Variable means its expression). -/
theorem C17_value_just_propagate {V : Type} (S : Sem V) (cfg : Cfg) (hdr : cfg.dr = none) (hr : RuleSound cfg.rule)
    (hfree : ∀ d, spec cfg.info d = .sideFree → ∀ s s', S.term s d = S.term s' d)
    (hvar : ∀ aux v l, S.op .variable aux [v, l] = v)
    (e e' : Expr) (hp : Proper cfg.rule e = true) (h : propagate cfg e = some e') (s : Side) :
    den S s e' = den S s e :=
  (off_aux S cfg hdr hr hfree hvar e .none e' hp h).2 rfl s

/-! ## exactly once -/

/- The full statement would be `C17_once_partial` without `GradsPlain`: it is false
   (`C17_grad_precondition_needed`): `Grad` is restricted as a whole without looking at its operand,
   so `grad(f('+'))('+')` passes with `f` under two restrictions.  `apply_derivatives` removes the
   pattern before restrictions are propagated (documented precondition of the module). -/

/-- **C17 (exactly once).**  In every accepted integrand, after propagation every terminal that depends
    on the side (not side-free, on a domain with a default side) sits under exactly one restriction,
    and nothing sits under two. -/
theorem C17_once_partial (cfg : Cfg) (table : List (Nat × Side)) (hdr : cfg.dr = some table) (hr : RuleSound cfg.rule)
    (e e' : Expr) (hp : Proper cfg.rule e = true) (hgp : GradsPlain cfg.rule e = true)
    (h : propagate cfg e = some e') : Once (sideDep cfg.info table) 0 e' = true :=
  once_aux cfg table hdr hr e .none e' hp hgp h

/-! ## rejection -/

/-- **C17 (double restrictions are rejected)**, with or without default restrictions, by the
    constructor-free and by the constructor-using propagator. -/
theorem C17_rejects_double (cfg : Cfg) (hr : RuleSound cfg.rule) (e : Expr) (hp : Proper cfg.rule e = true)
    (hgp : GradsPlain cfg.rule e = true) (hn : Nested false e = true) :
    propagate cfg e = none ∧ applyRestrictions cfg e = none :=
  ⟨(double_aux cfg plainRb hr e .none hp hgp).2 rfl hn, (double_aux cfg implRb hr e .none hp hgp).2 rfl hn⟩

/- The full statement would be `C17_rejects_missing_partial` for `cfg.dr = none` as well; it is false
   (`C17_rejects_missing_default_off_counterexample`): with `default_restrictions=None` nothing is
   checked (finding 2 of REPORT_C17.md). -/

/-- **C17 (missing restrictions are rejected), default restrictions given.**  An integrand with a
    discontinuous terminal of a two-sided domain outside every restriction is refused. -/
theorem C17_rejects_missing_partial (cfg : Cfg) (table : List (Nat × Side)) (hdr : cfg.dr = some table)
    (hr : RuleSound cfg.rule) (e : Expr) (hp : Proper cfg.rule e = true)
    (hb : BareDisc cfg.info table e = true) : propagate cfg e = none ∧ applyRestrictions cfg e = none :=
  ⟨missing_aux cfg plainRb table hdr hr e hp hb, missing_aux cfg implRb table hdr hr e hp hb⟩

/-- **C17 (refinement).**  Whatever `applyRestrictions` (reconstruction through the class constructors,
    the function tied to the implementation) accepts, `propagate` accepts. -/
theorem C17_impl_refines (cfg : Cfg) (e r : Expr) (h : applyRestrictions cfg e = some r) :
    ∃ p, propagate cfg e = some p :=
  ref_aux cfg e .none r h

/-! ## witnesses: the side conditions are needed, and the hypotheses are satisfiable -/

namespace Ex

/-- one mesh (number 0), default side '+'; `f`: H1 coefficient, `g`: DG coefficient, `x`, `n` on an affine mesh -/
def info (key : String) : TInfo :=
  if key = "f" then { dom := some 0, h1 := true }
  else if key = "g" then { dom := some 0, h1 := false }
  else { dom := some 0 }

def f : Expr := .term { cls := "Coefficient", key := "f", shape := [] }
def g : Expr := .term { cls := "Coefficient", key := "g", shape := [] }
def x : Expr := .term { cls := "SpatialCoordinate", key := "x", shape := [2] }
def n : Expr := .term { cls := "FacetNormal", key := "n", shape := [2] }
def pos (a : Expr) : Expr := .op .positiveRestricted [] [a]
def neg (a : Expr) : Expr := .op .negativeRestricted [] [a]

def on : Cfg := { rule := genRule, dr := some [(0, .plus)], info := info }
def off : Cfg := { rule := genRule, dr := none, info := info }

/-- reference gradient of the coordinate field, unrestricted: what `CellVolume(mesh)*dS` is lowered to -/
def gradX : Expr := .op .referenceGrad [2] [x]

/-- meanings are functions on two points: point 0 is the point on the facet, point 1 lies inside the cell -/
abbrev Val := Nat → Int

def sumAt (vs : List Val) (p : Nat) : Int := (vs.map (· p)).foldl (· + ·) 0

/-- `x` takes the value 5 on the facet and 3 / 7 inside the '+' / '-' cell; everything else is 0.
    `reference_grad` is a difference quotient (not pointwise); all other operators add pointwise. -/
def S : Sem Val where
  lit := fun _ _ => 0
  term := fun s d p => if d.cls = "SpatialCoordinate" then (if p = 0 then 5 else if s = .minus then 7 else 3) else 0
  op := fun k _ vs => match k with
    | .referenceGrad => fun _ => (vs.headD (fun _ => 0)) 1 - (vs.headD (fun _ => 0)) 0
    | .variable => vs.headD (fun _ => 0)
    | _ => sumAt vs

/-- same value at the facet point -/
def E (a b : Val) : Prop := a 0 = b 0

end Ex

open Ex in
theorem sumAt_rel : ∀ (vs vs' : List Val), RelL E vs vs' → ∀ acc, (vs.map (· 0)).foldl (· + ·) acc = (vs'.map (· 0)).foldl (· + ·) acc
  | [], [], _, _ => rfl
  | v :: vs, v' :: vs', ⟨h, hs⟩, acc => by
    simp only [List.map_cons, List.foldl_cons]
    rw [show v 0 = v' 0 from h]
    exact sumAt_rel vs vs' hs _
  | [], _ :: _, h, _ => by cases h
  | _ :: _, [], h, _ => by cases h

open Ex in
/-- the example data is consistent with continuity -/
theorem Ex.continuity : Continuity S E on [(0, .plus)] where
  equiv := ⟨fun _ => rfl, fun h => h.symm, fun h1 h2 => h1.trans h2⟩
  free := by
    intro d hd s s'
    funext p
    by_cases hc : d.cls = "SpatialCoordinate"
    · simp [spec, hc, specCls] at hd
    · simp [S, hc]
  onesided := by
    intro d hd
    simp only [termDefault, on, info] at hd
    split at hd <;> simp at hd
    all_goals (split at hd <;> simp at hd)
  cont := by intro d _; simp [E, S]
  refval := by intro d aux _; simp [E, S, sumAt]
  flip := by
    intro d hcls _ fresh s
    have hx : d.cls ≠ "SpatialCoordinate" := by rw [hcls]; decide
    have h0 : ∀ s, S.term s d = fun _ => 0 := by intro s; funext p; simp [S, hx]
    constructor <;>
    · unfold negE
      split
      · rw [den_op S s _ _ _ (by simp) (by simp)]
        simp only [denL_cons, denL_nil, den_int, den_pos, den_neg, den_term, h0]
        funext p; simp [S, sumAt]
      · rw [den_op S s _ _ _ (by simp) (by simp)]
        simp only [denL_cons, denL_nil, den_mi]
        rw [den_op S s _ _ _ (by simp) (by simp)]
        simp only [denL_cons, denL_nil, den_int]
        rw [den_op S s _ _ _ (by simp) (by simp)]
        simp only [denL_cons, denL_nil, den_mi, den_pos, den_neg, den_term, h0]
        funext p; simp [S, sumAt]
  var := by intro aux v l; simp [S]
  pw := by
    intro k aux vs vs' hk hrel
    have hsum : E (sumAt vs) (sumAt vs') := sumAt_rel vs vs' hrel 0
    have hhead : E (vs.headD (fun _ => 0)) (vs'.headD (fun _ => 0)) := by
      match vs, vs', hrel with
      | [], [], _ => rfl
      | v :: _, v' :: _, ⟨h, _⟩ => exact h
      | [], _ :: _, h => cases h
      | _ :: _, [], h => cases h
    cases k <;> first | (simp [pointwise] at hk; done) | exact hsum | exact hhead

open Ex in
/-- **C17 (value): the side condition is needed — negation of the full statement.**  `reference_grad(x)`
    outside every restriction is accepted, `x` gets the default side, and the result read on '+' differs
    on the facet from the input read on '-', for data consistent with continuity. -/
theorem C17_value_counterexample :
    ∃ (V : Type) (S : Sem V) (E : V → V → Prop) (cfg : Cfg) (table : List (Nat × Side)) (e e' : Expr),
      cfg.dr = some table ∧ Continuity S E cfg table ∧ RuleSound cfg.rule ∧ Proper cfg.rule e = true ∧
      propagate cfg e = some e' ∧ ¬ E (den S .plus e') (den S .minus e) := by
  refine ⟨Val, S, E, on, [(0, .plus)], gradX, .op .referenceGrad [2] [pos x], rfl, Ex.continuity, C17_table_sound,
    by decide +kernel, optBeq_sound (by decide +kernel), ?_⟩
  simp [E, gradX, x, pos, den_op, S]

open Ex in
/-- the hypotheses of `C17_value_partial` are satisfiable by a non-trivial instance: `dot(x, n('-'))` is
    proper, guarded and accepted; its propagation restricts `x` to the default side and rewrites `n('-')`
    to `-n('+')` -/
example : Proper genRule (.op .dot [] [x, neg n]) = true ∧ Guarded (.op .dot [] [x, neg n]) = true ∧
    propagate on (.op .dot [] [x, neg n]) = some (.op .dot [] [pos x, negE 0 (pos n)]) :=
  ⟨by decide +kernel, by decide +kernel, optBeq_sound (by decide +kernel)⟩

open Ex in
/-- **C17 (exactly once / double): the precondition on `Grad` is needed.**  `grad(f('+'))('+')` is
    accepted unchanged although it contains a restriction inside a restriction, and `f` ends up under two. -/
theorem C17_grad_precondition_needed :
    Proper genRule (pos (.op .grad [2] [pos f])) = true ∧
    Nested false (pos (.op .grad [2] [pos f])) = true ∧
    propagate on (pos (.op .grad [2] [pos f])) = some (pos (.op .grad [2] [pos f])) ∧
    Once (sideDep on.info [(0, .plus)]) 0 (pos (.op .grad [2] [pos f])) = false ∧
    GradsPlain genRule (pos (.op .grad [2] [pos f])) = false :=
  ⟨by decide +kernel, by decide +kernel, optBeq_sound (by decide +kernel), by decide +kernel, by decide +kernel⟩

open Ex in
/-- **C17 (missing): negation of the full statement for `default_restrictions=None`.**  The unrestricted
    DG coefficient `g` times the unrestricted normal is accepted unchanged (and refused with defaults). -/
theorem C17_rejects_missing_default_off_counterexample :
    BareDisc off.info [(0, .plus)] (.op .product [] [g, n]) = true ∧
    Proper genRule (.op .product [] [g, n]) = true ∧
    propagate off (.op .product [] [g, n]) = some (.op .product [] [g, n]) ∧
    propagate on (.op .product [] [g, n]) = none :=
  ⟨by decide +kernel, by decide +kernel, optBeq_sound (by decide +kernel), optBeq_sound (by decide +kernel)⟩

open Ex in
/-- the hypotheses of `C17_rejects_double` and `C17_once_partial` are satisfiable: `(f * g('+'))('-')` is
    proper with plain gradients and nested; `dot(grad(g)('-'), x)` is accepted and restricted exactly once -/
example : Proper genRule (neg (.op .product [] [f, pos g])) = true ∧ GradsPlain genRule (neg (.op .product [] [f, pos g])) = true ∧
    Nested false (neg (.op .product [] [f, pos g])) = true ∧
    propagate on (.op .dot [] [neg (.op .grad [2] [g]), x]) = some (.op .dot [] [neg (.op .grad [2] [g]), pos x]) ∧
    Once (sideDep on.info [(0, .plus)]) 0 (.op .dot [] [neg (.op .grad [2] [g]), pos x]) = true :=
  ⟨by decide +kernel, by decide +kernel, by decide +kernel, optBeq_sound (by decide +kernel), by decide +kernel⟩

end UflVerif.C17
