/- C09 for the code under test: `Gen/CancelGuards.lean` is regenerated on every run from the source of
   `ufl/algorithms/cancel_jacobian_products.py` and records which of the four guards the whole-pass theorem `C09_all` needs are
   present.  `C09_live_guards` is re-decided by the kernel on every run; if a guard disappears it no longer checks. -/
import UflVerif.Props.C09
import UflVerif.Gen.CancelGuards

namespace UflVerif
namespace Expr

/-- the code under test has the four guards (translator tie) -/
theorem C09_live_guards : liveGuards = Guards.repaired := by decide

/-- the pass of the code under test -/
def cancelLive : Expr → Option Expr := cancelWith liveGuards

theorem C09_live_is_repaired : cancelLive = cancelWith Guards.repaired := by
  unfold cancelLive; rw [C09_live_guards]

end Expr
end UflVerif
