/-
C27, translator tie: the write sites of the current ufl/ source (`Gen/Writes.lean`, regenerated on every run by
harness/translate/writes.py) against the write kinds of `Model/Writes.lean`.  The theorems about the kinds
themselves are in `Props/C27.lean`.
-/
import UflVerif.Model.Writes
import UflVerif.Gen.Writes

namespace UflVerif.C27
open UflVerif.Writes

/-! ## The write sites of the current source (translator tie) -/

open UflVerif.Gen.Writes

def Site.key (s : Site) : String × String × String × String × String × Nat :=
  (s.file, s.func, s.written, s.op, s.field, s.count)

/-- Sites whose target the intra-procedural rules cannot prove fresh, each reviewed by hand: what is written is
    never an expression, form, integral or measure that a caller passed in.  The list is pinned: a new store to
    a parameter / loop variable / call result anywhere in ufl/ — or one more such statement in a listed function —
    makes `C27_sites_reviewed_exact` fail.  (file, function, written object, operation, field, #statements). -/
def reviewed : List ((String × String × String × String × String × Nat) × String) := [
  (("algebra.py", "Product.evaluate", "tmp", "name-aug", "tmp", 1), "number: op= rebinds"),
  (("algorithms/analysis.py", "extract_type", "ufl_types", "name-aug", "ufl_types", 1), "tuple of classes: op= rebinds (a list argument is not usable: isinstance rejects it)"),
  (("algorithms/analysis.py", "sort_elements", "sorted_elements", "call:reverse", "", 1), "list returned by topological_sorting, created there"),
  (("algorithms/apply_derivatives.py", "DerivativeRuleDispatcher._", "arguments", "name-aug", "arguments", 1), "tuple: op= rebinds"),
  (("algorithms/apply_derivatives.py", "GateauxDerivativeRuleset._", "gprimesum", "name-aug", "gprimesum", 2), "Expr has no in-place operators: op= rebinds to a new node"),
  (("algorithms/apply_derivatives.py", "GateauxDerivativeRuleset._process_coefficient", "dosum", "name-aug", "dosum", 2), "Expr: op= rebinds"),
  (("algorithms/apply_derivatives.py", "GradRuleset._", "temp", "name-aug", "temp", 2), "Expr: op= rebinds"),
  (("algorithms/apply_derivatives.py", "VariableRuleset._make_identity", "res", "name-aug", "res", 1), "number: op= rebinds"),
  (("algorithms/cancel_jacobian_products.py", "_flatten_product", "factors", "call:append", "", 1), "accumulator list created by the caller in the same module"),
  (("algorithms/formdata.py", "FormData.__init__", "itg_data", "attr", "enabled_coefficients", 1), "IntegralData built by build_integral_data inside the same compute_form_data call"),
  (("algorithms/formdata.py", "FormData.__init__", "itg_data", "attr", "integral_coefficients", 1), "IntegralData built inside the same compute_form_data call"),
  (("algorithms/formdata.py", "FormData.__init__", "itg_data", "attr", "integrals", 4), "IntegralData built inside the same compute_form_data call; the list assigned is new"),
  (("algorithms/replace_derivative_nodes.py", "DerivativeNodeReplacer.coefficient_derivative", "der_kwargs", "call:update", "", 1), "the ** dictionary of replace_derivative_nodes, created by that call"),
  (("algorithms/signature.py", "compute_multiindex_hashdata", "index_numbering", "sub", "", 1), "numbering dict created by compute_terminal_hashdata"),
  (("core/compute_expr_hash.py", "compute_expr_hash", "deps", "sub", "", 1), "list(expr.ufl_operands) created two lines above and pushed on the traversal stack"),
  (("corealg/map_dag.py", "map_expr_dags", "rcache", "sub", "", 1), "result cache dict of the traversal"),
  (("corealg/map_dag.py", "map_expr_dags", "vcache", "sub", "", 1), "visited cache dict of the traversal"),
  (("corealg/multifunction.py", "memoized_handler._memoized_handler", "c", "sub", "", 1), "cache dict owned by the algorithm instance"),
  (("corealg/traversal.py", "cutoff_post_traversal", "deps", "sub", "", 1), "list(ufl_operands) on the traversal stack"),
  (("corealg/traversal.py", "cutoff_unique_post_traversal", "deps", "sub", "", 1), "list(ufl_operands) on the traversal stack"),
  (("corealg/traversal.py", "cutoff_unique_post_traversal", "visited", "call:add", "", 2), "visited set of the traversal"),
  (("corealg/traversal.py", "post_traversal", "deps", "sub", "", 1), "list(ufl_operands) on the traversal stack"),
  (("corealg/traversal.py", "unique_post_traversal", "deps", "sub", "", 1), "list(ufl_operands) on the traversal stack"),
  (("corealg/traversal.py", "unique_post_traversal", "visited", "call:add", "", 2), "visited set of the traversal"),
  (("corealg/traversal.py", "unique_pre_traversal", "visited", "call:add", "", 2), "visited set of the traversal"),
  (("form.py", "Form._analyze_domains", "domains_in_extra_domain_integral_type_map", "name-aug", "domains_in_extra_domain_integral_type_map", 1), "set returned by join_domains, created there"),
  (("formatting/ufl2unicode.py", "get_integral_symbol", "istr", "name-aug", "istr", 1), "str: op= rebinds"),
  (("formoperators.py", "set_list_item", "li", "sub", "", 1), "nested list built by zero_lists in _handle_derivative_arguments"),
  (("indexsum.py", "IndexSum.evaluate", "index_values", "call:pop", "", 1), "evaluation environment (StackDict), restored before return"),
  (("indexsum.py", "IndexSum.evaluate", "index_values", "call:push", "", 1), "evaluation environment (StackDict)"),
  (("precedence.py", "assign_precedences", "c", "attr", "_precedence", 1), "class attribute, assigned once on first str()"),
  (("split_functions.py", "split", "j", "name-aug", "j", 1), "int: op= rebinds"),
  (("split_functions.py", "split", "offset", "name-aug", "offset", 1), "int: op= rebinds"),
  (("tensors.py", "ComponentTensor.evaluate", "index_values", "call:pop", "", 1), "evaluation environment (StackDict), restored before return"),
  (("tensors.py", "ComponentTensor.evaluate", "index_values", "call:push", "", 1), "evaluation environment (StackDict)"),
  (("utils/counted.py", "Counted.__init__", "counted_class", "attr", "_counter", 1), "per-class counter object, created on first use"),
  (("utils/indexflattening.py", "unflatten_index", "i", "name-aug", "i", 1), "int: op= rebinds"),
  (("utils/sorting.py", "topological_sorting", "node_edges", "call:pop", "", 1), "edge lists built by the only caller (sort_elements) for this call")]

/-- **every write site of the current ufl/ source** has a kind that the model proves harmless (memo fill,
    operand-tuple replacement), or that cannot touch an object that existed before the call (constructor, local
    object, algorithm state, import-time / registry), or is one of the individually reviewed sites -/
theorem C27_sites_classified :
    ∀ s ∈ sites, s.kind.harmless = true ∨ Site.key s ∈ reviewed.map (·.1) := by decide +kernel

/-- … and the reviewed list is exactly the set of sites that need it (no stale entry, none missing, same
    number of statements per entry) -/
theorem C27_sites_reviewed_exact :
    (sites.filter (fun s => !s.kind.harmless)).map Site.key = reviewed.map (·.1) := by decide +kernel

/-- the two write kinds that do touch existing expressions occur once each, where the model says they do -/
theorem C27_sites_special :
    (sites.filter (fun s => s.kind == .operandShare)).map (fun s => (s.file, s.func, s.written, s.field, s.count))
      = [("exprequals.py", "expr_equals", "self", "ufl_operands", 1)] ∧
    (sites.filter (fun s => s.kind == .memoHash)).map (fun s => (s.file, s.func, s.written, s.field, s.count))
      = [("core/compute_expr_hash.py", "compute_expr_hash", "expr", "_hash", 1)] := by decide +kernel

/-- every slot written outside a constructor is written under its `is None` guard and is one of the slots of the
    model; the metadata stores of the three anchored passes (`attach_estimated_degrees`, `apply_integral_scaling`,
    `Measure.__call__`) go into a dictionary created in the same function -/
theorem C27_sites_memo_and_metadata :
    sites.all (fun s => match s.kind with
      | .guardedSelf c f => memoSlots.contains (c, f)
      | .unguardedSelf _ _ => false
      | _ => true) = true ∧
    (sites.filter (fun s => s.written == "md" || (s.written == "metadata" && s.file == "measure.py"))).map
        (fun s => (s.file, s.func, s.op, s.kind == .localFresh, s.count))
      = [("algorithms/apply_integral_scaling.py", "apply_integral_scaling", "call:update", true, 1),
         ("algorithms/apply_integral_scaling.py", "apply_integral_scaling", "sub", true, 1),
         ("algorithms/compute_form_data.py", "attach_estimated_degrees", "call:update", true, 1),
         ("algorithms/compute_form_data.py", "attach_estimated_degrees", "sub", true, 1),
         ("measure.py", "Measure.__call__", "sub", true, 2)] := by
  constructor <;> decide +kernel

/-! ### Constructors that can run on an object they did not create

`initSelf` sites are harmless because the object written is the one under construction — unless `__new__` returned an
object that exists already and is an instance of the class: Python then runs `__init__` on it.  `newInits` lists every
class whose `__new__` has such a return, with the status of its `__init__`: `guarded` (returns at once on an initialised
object), `trivial`, `hashResetOnly` (`Operator.__init__(self)`: write kind memoReset, `C27_resetWrite_observers`), or
`unguarded`.  The unguarded ones are pinned here with what their `__new__` can return; whether that can be an instance
of the class is decided dynamically by the constructor sweep of harness/props/c27.py (`reinit_sweep`).  The rows marked
FINDING are the genuine defects (`C27_reinit_counterexample`); once their `__init__` is guarded they leave `newInits`' unguarded
set and the inclusion still holds. -/
def reinitReviewed : List ((String × String × Nat) × String) := [
  (("mathfunctions.py", "Acos", 2), "literal"),
  (("action.py", "Action", 10), "FINDING: returns `left` / `right`, which may be an Action: __init__ then makes it its own operand (fix_C27_2.diff)"),
  (("adjoint.py", "Adjoint", 4), "ZeroBaseForm, FormSum, an Argument, or the form under an Adjoint (never an Adjoint: Adjoint(Adjoint(x)) is x)"),
  (("argument.py", "Argument", 1), "a Coargument (other class)"),
  (("mathfunctions.py", "Asin", 2), "literal"),
  (("mathfunctions.py", "Atan", 2), "literal"),
  (("mathfunctions.py", "Atan2", 1), "literal"),
  (("averaging.py", "CellAvg", 1), "the argument when it is a ConstantValue"),
  (("coefficient.py", "Coefficient", 1), "a Cofunction (other class)"),
  (("differentiation.py", "CoefficientDerivative", 1), "the integrand when it is a Zero"),
  (("constantvalue.py", "ComplexValue", 2), "Zero / FloatValue"),
  (("algebra.py", "Conj", 3), "an Abs / Real / Imag / Zero argument, the operand of a Conj (never a Conj), or a literal"),
  (("mathfunctions.py", "Cos", 2), "literal"),
  (("mathfunctions.py", "Cosh", 2), "literal"),
  (("tensoralgebra.py", "Cross", 1), "Zero"),
  (("differentiation.py", "Curl", 1), "Zero"),
  (("tensoralgebra.py", "Determinant", 2), "FINDING: returns a scalar argument, which may be a Determinant: __init__ then makes it its own operand (fix_C27_1.diff)"),
  (("tensoralgebra.py", "Deviatoric", 1), "Zero"),
  (("differentiation.py", "Div", 1), "Zero"),
  (("tensoralgebra.py", "Dot", 2), "FINDING: scalar case returns a*b, which simplifies to an operand for a literal 1 (fix_C27_1.diff)"),
  (("mathfunctions.py", "Erf", 2), "literal"),
  (("mathfunctions.py", "Exp", 2), "literal"),
  (("averaging.py", "FacetAvg", 1), "the argument when it is a ConstantValue"),
  (("constantvalue.py", "FloatValue", 1), "Zero"),
  (("form.py", "FormSum", 2), "FINDING (observers survive): FormSum((S, 1)) returns S and re-runs __init__ on it, rewriting its fields with equal values and emptying its memo slots (fix_C27_3.diff)"),
  (("differentiation.py", "Grad", 1), "Zero"),
  (("algebra.py", "Imag", 3), "Zero or a literal"),
  (("tensoralgebra.py", "Inner", 3), "FINDING: scalar case returns a*Conj(b), which simplifies to an operand for a literal 1 (fix_C27_1.diff)"),
  (("tensoralgebra.py", "Inverse", 1), "1 / A (a Division)"),
  (("mathfunctions.py", "Ln", 2), "literal"),
  (("differentiation.py", "NablaDiv", 1), "Zero"),
  (("differentiation.py", "NablaGrad", 1), "Zero"),
  (("tensoralgebra.py", "Outer", 2), "FINDING: outer(1, O) — scalar case returns Conj(a)*b, which simplifies to b; b may be an Outer: __init__ then makes it its own operand (fix_C27_1.diff)"),
  (("tensoralgebra.py", "Perp", 1), "Zero"),
  (("algebra.py", "Real", 2), "Zero or a literal"),
  (("differentiation.py", "ReferenceCurl", 1), "Zero"),
  (("differentiation.py", "ReferenceDiv", 1), "Zero"),
  (("differentiation.py", "ReferenceGrad", 1), "Zero"),
  (("restriction.py", "Restricted", 1), "the argument when it is a ConstantValue"),
  (("mathfunctions.py", "Sin", 2), "literal"),
  (("mathfunctions.py", "Sinh", 2), "literal"),
  (("tensoralgebra.py", "Skew", 1), "Zero"),
  (("mathfunctions.py", "Sqrt", 3), "literal"),
  (("tensoralgebra.py", "Sym", 1), "Zero"),
  (("mathfunctions.py", "Tan", 2), "literal"),
  (("mathfunctions.py", "Tanh", 2), "literal"),
  (("tensoralgebra.py", "Trace", 1), "Zero"),
  (("tensoralgebra.py", "Transposed", 1), "Zero"),
  (("differentiation.py", "VariableDerivative", 1), "Zero")]

/-- every class whose `__new__` may return an existing object and whose `__init__` would rewrite it is one of the
    reviewed ones, with the reviewed number of such returns -/
theorem C27_sites_reinit :
    ∀ r ∈ newInits, r.2.2.2 = "unguarded" → (r.1, r.2.1, r.2.2.1) ∈ reinitReviewed.map (·.1) := by decide +kernel

/-- the statuses the translator can emit are the four the comment above explains -/
theorem C27_sites_reinit_statuses :
    ∀ r ∈ newInits, r.2.2.2 ∈ ["guarded", "trivial", "hashResetOnly", "unguarded"] := by decide +kernel

example : newInits.length ≥ 50 ∧ (newInits.filter (fun r => r.2.2.2 == "hashResetOnly")).map (·.2.1) = ["Division", "Power", "Product", "Sum"] := by
  decide +kernel

example : sites.length ≥ 500 ∧ scannedFiles ≥ 80 ∧ (sites.filter (fun s => s.kind == .localFresh)).length ≥ 200 := by
  decide +kernel

end UflVerif.C27
