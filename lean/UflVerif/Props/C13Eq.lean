/-
C13 (deepening)  `expr_equals` as implemented — with its hash cut-off, its identity cut-offs, the memo slots it fills and the
operand tuples it shares — computes the structural `==` of the specification level, whatever the memo state and whatever
was compared before.  Model: Model/ExprEq.lean.
-/
import UflVerif.Props.C13

namespace UflVerif.C13
open UflVerif Expr MObj

variable (T : TermObs)

/-- a terminal `==` only holds between objects of one class (every terminal `__eq__` starts with an `isinstance` test) -/
def TermTyped : Prop :=
  ∀ a b, a.isTerminal = true → b.isTerminal = true → T.teq a b = true → clsOf a = clsOf b

theorem eqE_term (a b : Expr) (ha : a.isTerminal = true) (hb : b.isTerminal = true) : eqE T a b = T.teq a b := by
  cases a <;> cases b <;> simp_all [eqE, isTerminal]

theorem hashE_term (a : Expr) (ha : a.isTerminal = true) : hashE T a = T.thash a := by
  cases a <;> simp_all [hashE, isTerminal]

theorem eqE_sameType (hty : TermTyped T) (a b : Expr) (h : eqE T a b = true) : sameType a b = true := by
  cases a <;> cases b <;> simp only [eqE, Bool.and_eq_true, beq_iff_eq, Bool.false_eq_true] at h <;>
    first
    | (simp only [sameType, beq_iff_eq]; exact hty _ _ rfl rfl h)
    | simp [sameType, h.1]


/-! ### `compute_expr_hash` -/

mutual
theorem erase_fill : ∀ o : MObj, (fill T o).erase = o.erase
  | .leaf _ _ none => rfl
  | .leaf _ _ (some _) => rfl
  | .node _ _ _ _ ops none => by simp only [fill, erase, eraseL_fillL ops]
  | .node _ _ _ _ _ (some _) => rfl
theorem eraseL_fillL : ∀ os : List MObj, eraseL (fillL T os) = eraseL os
  | [] => rfl
  | o :: os => by simp only [fillL, eraseL, erase_fill o, eraseL_fillL os]
end

theorem ok_leaf {Γ Δ tag t m} (h : ok T Γ Δ (.leaf tag t m) = true) :
    t.isTerminal = true ∧ eqE T t (Γ tag) = true ∧ (∀ v, m = some v → v = T.thash t) := by
  simp only [ok, Bool.and_eq_true] at h
  refine ⟨h.1.1, h.1.2, ?_⟩
  intro v hv; subst hv; simpa using h.2

theorem ok_node {Γ Δ tag k aux ot ops m} (h : ok T Γ Δ (.node tag k aux ot ops m) = true) :
    eqE T (.op k aux (eraseL ops)) (Γ tag) = true ∧ eqL T (eraseL ops) (Δ ot) = true ∧
    (∀ v, m = some v → v = T.mix k.name (hashL T (eraseL ops))) ∧ okL T Γ Δ ops = true := by
  simp only [ok, Bool.and_eq_true] at h
  refine ⟨h.1.1.1, h.1.1.2, ?_, h.2⟩
  intro v hv; subst hv; simpa using h.1.2

mutual
theorem hashOf_ok (Γ Δ) : ∀ o : MObj, ok T Γ Δ o = true → hashOf T o = hashE T o.erase
  | .leaf _ e none, h => by simp only [hashOf, erase, hashE_term T e (ok_leaf T h).1]
  | .leaf _ e (some v), h => by
    simp only [hashOf, erase, hashE_term T e (ok_leaf T h).1]; exact (ok_leaf T h).2.2 v rfl
  | .node _ k _ _ ops none, h => by
    simp only [hashOf, erase, hashE, hashOfL_ok Γ Δ ops (ok_node T h).2.2.2]
  | .node _ k _ _ ops (some v), h => by
    simp only [hashOf, erase, hashE]; exact (ok_node T h).2.2.1 v rfl
theorem hashOfL_ok (Γ Δ) : ∀ os : List MObj, okL T Γ Δ os = true → hashOfL T os = hashL T (eraseL os)
  | [], _ => rfl
  | o :: os, h => by
    simp only [okL, Bool.and_eq_true] at h
    simp only [hashOfL, eraseL, hashL, hashOf_ok Γ Δ o h.1, hashOfL_ok Γ Δ os h.2]
end

mutual
theorem ok_fill (Γ Δ) : ∀ o : MObj, ok T Γ Δ o = true → ok T Γ Δ (fill T o) = true
  | .leaf _ e none, h => by
    have := ok_leaf T h
    simp only [fill, ok, this.1, this.2.1, beq_self_eq_true, Bool.and_self]
  | .leaf _ _ (some _), h => h
  | .node _ k _ _ ops none, h => by
    have h' := ok_node T h
    have hl := okL_fillL Γ Δ ops h'.2.2.2
    simp only [fill, ok, eraseL_fillL, h'.1, h'.2.1, hl, hashOfL_ok T Γ Δ _ hl, beq_self_eq_true, Bool.and_self]
  | .node _ _ _ _ _ (some _), h => h
theorem okL_fillL (Γ Δ) : ∀ os : List MObj, okL T Γ Δ os = true → okL T Γ Δ (fillL T os) = true
  | [], _ => rfl
  | o :: os, h => by
    simp only [okL, Bool.and_eq_true] at h
    simp only [fillL, okL, ok_fill Γ Δ o h.1, okL_fillL Γ Δ os h.2, Bool.and_self]
end

theorem fill_fields (o : MObj) : (fill T o).tag = o.tag ∧ (fill T o).otag? = o.otag? ∧ (fill T o).head = o.head := by
  cases o with
  | leaf t e m => cases m <;> simp [fill, MObj.tag, MObj.otag?, MObj.head]
  | node t k aux ot ops m => cases m <;> simp [fill, MObj.tag, MObj.otag?, MObj.head]


/-! ### the work-list loop computes the structural `==` -/

theorem sameType_erase (a b : MObj) : sameType a.erase b.erase = sameTypeM a b := by
  cases a with
  | leaf t e m =>
    cases b with
    | leaf t' e' m' => rfl
    | node t' k' aux' ot' ops' m' => cases e <;> rfl
  | node t k aux ot ops m =>
    cases b with
    | leaf t' e' m' => cases e' <;> rfl
    | node t' k' aux' ot' ops' m' => rfl

theorem ok_tag {Γ Δ} (o : MObj) (h : ok T Γ Δ o = true) : eqE T o.erase (Γ o.tag) = true := by
  cases o with
  | leaf t e m => exact (ok_leaf T h).2.1
  | node t k aux ot ops m => exact (ok_node T h).1

theorem eqE_via (he : TermEquiv T) {a b c : Expr} (h1 : eqE T a c = true) (h2 : eqE T b c = true) : eqE T a b = true :=
  trans_E T he _ _ _ h1 (symm_E T he _ _ h2)

theorem eqL_via (he : TermEquiv T) {a b c : List Expr} (h1 : eqL T a c = true) (h2 : eqL T b c = true) : eqL T a b = true :=
  trans_L T he _ _ _ h1 (symm_L T he _ _ h2)

mutual
theorem cmp_spec (he : TermEquiv T) (hty : TermTyped T) (Γ Δ) :
    ∀ a b : MObj, ok T Γ Δ a = true → ok T Γ Δ b = true → sameTypeM a b = true → cmp T a b = eqE T a.erase b.erase
  | .leaf _ s _, .leaf _ o _, ha, hb, _ => by
    simp only [cmp, erase, eqE_term T s o (ok_leaf T ha).1 (ok_leaf T hb).1]
  | .node _ k x so sops _, .node _ k' x' oo oops _, ha, hb, hs => by
    have hk : k = k' := by simpa [sameTypeM, MObj.head, sameType] using hs
    simp only [cmp, erase, eqE, hk, beq_self_eq_true, Bool.true_and]
    by_cases hoo : (so == oo) = true
    · rw [if_pos hoo]
      have : so = oo := by simpa using hoo
      subst this
      exact (eqL_via T he (ok_node T ha).2.1 (ok_node T hb).2.1).symm
    · rw [if_neg hoo]
      exact cmpL_spec he hty Γ Δ sops oops (ok_node T ha).2.2.2 (ok_node T hb).2.2.2
  | .leaf _ s _, .node .., ha, _, hs => by
    exfalso
    have := (ok_leaf T ha).1
    cases s <;> simp_all [sameTypeM, MObj.head, sameType, isTerminal]
  | .node .., .leaf _ o _, _, hb, hs => by
    exfalso
    have := (ok_leaf T hb).1
    cases o <;> simp_all [sameTypeM, MObj.head, sameType, isTerminal]
theorem cmpL_spec (he : TermEquiv T) (hty : TermTyped T) (Γ Δ) :
    ∀ as bs : List MObj, okL T Γ Δ as = true → okL T Γ Δ bs = true → cmpL T as bs = eqL T (eraseL as) (eraseL bs)
  | [], [], _, _ => rfl
  | s :: ss, o :: os, ha, hb => by
    simp only [okL, Bool.and_eq_true] at ha hb
    simp only [cmpL, eraseL, eqL]
    by_cases hs : sameTypeM s o = true
    · simp only [hs, Bool.not_true, Bool.false_eq_true, if_false]
      rw [cmpL_spec he hty Γ Δ ss os ha.2 hb.2]
      congr 1
      by_cases ht : (s.tag == o.tag) = true
      · rw [if_pos ht]
        have : s.tag = o.tag := by simpa using ht
        have h1 := ok_tag T s ha.1
        rw [this] at h1
        exact (eqE_via T he h1 (ok_tag T o hb.1)).symm
      · rw [if_neg ht]
        exact cmp_spec he hty Γ Δ s o ha.1 hb.1 hs
    · have hf : eqE T s.erase o.erase = false := by
        cases h : eqE T s.erase o.erase
        · rfl
        · exfalso; apply hs; rw [← sameType_erase]; exact eqE_sameType T hty _ _ h
      simp only [Bool.not_eq_true] at hs
      simp only [hs, hf, Bool.not_false, if_true, Bool.false_and]
  | [], _ :: _, _, _ => by simp [cmpL, eraseL, eqL]
  | _ :: _, [], _, _ => by simp [cmpL, eraseL, eqL]
end


/-! ### `expr_equals` -/

theorem adopt_ok (he : TermEquiv T) (hok : TermsOK T) {Γ Δ} (a b : MObj) (ha : ok T Γ Δ a = true) (hb : ok T Γ Δ b = true)
    (hab : eqE T a.erase b.erase = true) :
    ok T Γ Δ (adopt a b) = true ∧ eqE T (adopt a b).erase a.erase = true := by
  cases a with
  | leaf t e m => exact ⟨ha, refl_E T he _⟩
  | node t k aux ot ops m =>
    cases b with
    | leaf t' e' m' => exact ⟨ha, refl_E T he _⟩
    | node t' k' aux' ot' ops' m' =>
      obtain ⟨a1, _, a3, _⟩ := ok_node T ha
      obtain ⟨_, b2, _, b4⟩ := ok_node T hb
      simp only [erase, eqE, Bool.and_eq_true, beq_iff_eq] at hab
      have hsym : eqL T (eraseL ops') (eraseL ops) = true := symm_L T he _ _ hab.2
      have key : eqE T (.op k aux (eraseL ops')) (.op k aux (eraseL ops)) = true := by
        simp only [eqE, beq_self_eq_true, Bool.true_and]; exact hsym
      refine ⟨?_, key⟩
      have hh : hashL T (eraseL ops') = hashL T (eraseL ops) := (congr_L T hok _ _ hsym).1
      have g1 : eqE T (.op k aux (eraseL ops')) (Γ t) = true := trans_E T he _ _ _ key a1
      cases m with
      | none => simp only [adopt, ok, g1, b2, b4, Bool.and_self]
      | some v =>
        have := a3 v rfl
        simp only [adopt, ok, g1, b2, b4, hh, this, beq_self_eq_true, Bool.and_self]

/-- **`expr_equals` computes the structural `==`**, in every memo state: its outcome is `eqE` of the two structures; afterwards
    both objects satisfy the state invariant again, the right one has its structure, the left one a structure `==` to its own -/
theorem C13_exprEquals_spec (he : TermEquiv T) (hty : TermTyped T) (hok : TermsOK T) (Γ Δ) (a b : MObj)
    (ha : ok T Γ Δ a = true) (hb : ok T Γ Δ b = true) :
    (exprEquals T a b).1 = eqE T a.erase b.erase ∧
    ok T Γ Δ (exprEquals T a b).2.1 = true ∧ ok T Γ Δ (exprEquals T a b).2.2 = true ∧
    eqE T (exprEquals T a b).2.1.erase a.erase = true ∧ (exprEquals T a b).2.2.erase = b.erase := by
  have fa := ok_fill T Γ Δ a ha
  have fb := ok_fill T Γ Δ b hb
  have ea := erase_fill T a
  have eb := erase_fill T b
  have raa : eqE T a.erase a.erase = true := refl_E T he _
  unfold exprEquals
  by_cases hs : sameTypeM a b = true
  · simp only [hs, Bool.not_true, Bool.false_eq_true, if_false]
    by_cases hh : (hashOf T (fill T a) != hashOf T (fill T b)) = true
    · rw [if_pos hh]
      refine ⟨?_, fa, fb, by rw [ea]; exact raa, eb⟩
      cases h : eqE T a.erase b.erase
      · rfl
      · exfalso
        have := (C13_eq_implies_hash_repr T hok _ _ h).1
        rw [hashOf_ok T Γ Δ _ fa, hashOf_ok T Γ Δ _ fb, ea, eb, this] at hh
        simp at hh
    · rw [if_neg hh]
      by_cases hid : (a.tag == b.tag || (a.otag?.isSome && a.otag? == b.otag?)) = true
      · rw [if_pos hid]
        refine ⟨?_, fa, fb, by rw [ea]; exact raa, eb⟩
        simp only [Bool.or_eq_true, Bool.and_eq_true, beq_iff_eq] at hid
        rcases hid with ht | ⟨h1, h2⟩
        · have h1 := ok_tag T a ha
          rw [ht] at h1
          exact (eqE_via T he h1 (ok_tag T b hb)).symm
        · cases a with
          | leaf t e m => simp [MObj.otag?] at h1
          | node t k aux ot ops m =>
            cases b with
            | leaf t' e' m' => simp [MObj.otag?] at h2
            | node t' k' aux' ot' ops' m' =>
              have hk : k = k' := by simpa [sameTypeM, MObj.head, sameType] using hs
              have ho : ot = ot' := by simpa [MObj.otag?] using h2
              subst ho
              simp only [erase, eqE, hk, beq_self_eq_true, Bool.true_and]
              exact (eqL_via T he (ok_node T ha).2.1 (ok_node T hb).2.1).symm
      · rw [if_neg hid]
        have hs' : sameTypeM (fill T a) (fill T b) = true := by
          simp only [sameTypeM, (fill_fields T a).2.2, (fill_fields T b).2.2]; exact hs
        have hc := cmp_spec T he hty Γ Δ _ _ fa fb hs'
        rw [ea, eb] at hc
        by_cases hcmp : cmp T (fill T a) (fill T b) = true
        · rw [if_pos hcmp]
          have hab : eqE T (fill T a).erase (fill T b).erase = true := by rw [ea, eb, ← hc]; exact hcmp
          obtain ⟨o1, o2⟩ := adopt_ok T he hok _ _ fa fb hab
          rw [ea] at o2
          exact ⟨by rw [← hc]; exact hcmp.symm, o1, fb, o2, eb⟩
        · rw [if_neg hcmp]
          refine ⟨?_, fa, fb, by rw [ea]; exact raa, eb⟩
          rw [← hc]; simpa using hcmp
  · simp only [Bool.not_eq_true] at hs
    simp only [hs, Bool.not_false, if_true]
    refine ⟨?_, ha, hb, raa, trivial⟩
    cases h : eqE T a.erase b.erase
    · rfl
    · exfalso
      have := eqE_sameType T hty _ _ h
      rw [sameType_erase, hs] at this
      exact Bool.false_ne_true this


/-- the hypotheses on the terminal classes: `==` is an equivalence relation between objects of one class, and implies equal
    hash and identical repr (discharged for the regenerated table by `C13_table_terms` below) -/
structure TermsGood : Prop where
  eqv : TermEquiv T
  typed : TermTyped T
  obs : TermsOK T

/-- `a == b` as the implementation computes it in the current memo state -/
def eqM (a b : MObj) : Bool := (eqTop T a b).1

theorem C13_eqTop_spec (hT : TermsGood T) (Γ Δ) (a b : MObj) (ha : ok T Γ Δ a = true) (hb : ok T Γ Δ b = true) :
    (eqTop T a b).1 = eqE T a.erase b.erase ∧
    ok T Γ Δ (eqTop T a b).2.1 = true ∧ ok T Γ Δ (eqTop T a b).2.2 = true ∧
    eqE T (eqTop T a b).2.1.erase a.erase = true ∧ (eqTop T a b).2.2.erase = b.erase := by
  cases a with
  | leaf t e m =>
    cases b with
    | leaf t' e' m' =>
      simp only [eqTop, erase]
      exact ⟨(eqE_term T e e' (ok_leaf T ha).1 (ok_leaf T hb).1).symm, ha, hb, refl_E T hT.eqv _, trivial⟩
    | node t' k' aux' ot' ops' m' =>
      simp only [eqTop, erase]
      refine ⟨?_, ha, hb, refl_E T hT.eqv _, trivial⟩
      have := (ok_leaf T ha).1
      cases e <;> simp_all [eqE, isTerminal]
  | node t k aux ot ops m =>
    cases b <;> exact C13_exprEquals_spec T hT.eqv hT.typed hT.obs Γ Δ _ _ ha hb

/-- **== is an equivalence relation** on objects in arbitrary (reachable) memo states -/
theorem C13_eq_equivalence (hT : TermsGood T) (Γ Δ) :
    (∀ a, ok T Γ Δ a = true → eqM T a a = true) ∧
    (∀ a b, ok T Γ Δ a = true → ok T Γ Δ b = true → eqM T a b = true → eqM T b a = true) ∧
    (∀ a b c, ok T Γ Δ a = true → ok T Γ Δ b = true → ok T Γ Δ c = true →
      eqM T a b = true → eqM T b c = true → eqM T a c = true) := by
  refine ⟨?_, ?_, ?_⟩
  · intro a ha
    simp only [eqM, (C13_eqTop_spec T hT Γ Δ a a ha ha).1]; exact refl_E T hT.eqv _
  · intro a b ha hb h
    simp only [eqM, (C13_eqTop_spec T hT Γ Δ a b ha hb).1] at h
    simp only [eqM, (C13_eqTop_spec T hT Γ Δ b a hb ha).1]; exact symm_E T hT.eqv _ _ h
  · intro a b c ha hb hc h1 h2
    simp only [eqM, (C13_eqTop_spec T hT Γ Δ a b ha hb).1] at h1
    simp only [eqM, (C13_eqTop_spec T hT Γ Δ b c hb hc).1] at h2
    simp only [eqM, (C13_eqTop_spec T hT Γ Δ a c ha hc).1]; exact trans_E T hT.eqv _ _ _ h1 h2

/-- **a == b implies hash(a) == hash(b)**, whichever `_hash` slots are filled before and after the comparison -/
theorem C13_eq_implies_hash (hT : TermsGood T) (Γ Δ) (a b : MObj) (ha : ok T Γ Δ a = true) (hb : ok T Γ Δ b = true)
    (h : eqM T a b = true) :
    hashOf T a = hashOf T b ∧ hashOf T (eqTop T a b).2.1 = hashOf T (eqTop T a b).2.2 ∧
    hashOf T (eqTop T a b).2.1 = hashOf T a := by
  obtain ⟨s1, s2, s3, s4, s5⟩ := C13_eqTop_spec T hT Γ Δ a b ha hb
  simp only [eqM, s1] at h
  have hab := (C13_eq_implies_hash_repr T hT.obs _ _ h).1
  have ha' := (C13_eq_implies_hash_repr T hT.obs _ _ s4).1
  rw [hashOf_ok T Γ Δ a ha, hashOf_ok T Γ Δ b hb, hashOf_ok T Γ Δ _ s2, hashOf_ok T Γ Δ _ s3, s5, ha']
  exact ⟨hab, hab, rfl⟩

/-- **a == b implies repr(a) == repr(b)**; the comparison leaves both reprs as they were -/
theorem C13_eq_implies_repr (hT : TermsGood T) (Γ Δ) (a b : MObj) (ha : ok T Γ Δ a = true) (hb : ok T Γ Δ b = true) :
    (eqM T a b = true → reprE T a.erase = reprE T b.erase) ∧
    reprE T (eqTop T a b).2.1.erase = reprE T a.erase ∧ reprE T (eqTop T a b).2.2.erase = reprE T b.erase := by
  obtain ⟨s1, _, _, s4, s5⟩ := C13_eqTop_spec T hT Γ Δ a b ha hb
  refine ⟨?_, (C13_eq_implies_hash_repr T hT.obs _ _ s4).2, by rw [s5]⟩
  intro h
  simp only [eqM, s1] at h
  exact (C13_eq_implies_hash_repr T hT.obs _ _ h).2

theorem eqE_congr (he : TermEquiv T) {a a' b b' : Expr} (h1 : eqE T a a' = true) (h2 : eqE T b b' = true) :
    eqE T a b = eqE T a' b' := by
  cases h : eqE T a' b'
  · cases h' : eqE T a b
    · rfl
    · have := trans_E T he _ _ _ (trans_E T he _ _ _ (symm_E T he _ _ h1) h') h2
      rw [h] at this; exact absurd this (by simp)
  · exact trans_E T he _ _ _ (trans_E T he _ _ _ h1 h) (symm_E T he _ _ h2)

theorem run_inv (hT : TermsGood T) (Γ Δ) (p : Nat → MObj) (hp : ∀ n, ok T Γ Δ (p n) = true) (h : List (Nat × Nat)) :
    ∀ n, ok T Γ Δ (run T p h n) = true ∧ eqE T (run T p h n).erase (p n).erase = true := by
  suffices H : ∀ (q : Nat → MObj), (∀ n, ok T Γ Δ (q n) = true ∧ eqE T (q n).erase (p n).erase = true) →
      ∀ n, ok T Γ Δ (h.foldl (step T) q n) = true ∧ eqE T (h.foldl (step T) q n).erase (p n).erase = true from
    H p (fun n => ⟨hp n, refl_E T hT.eqv _⟩)
  induction h with
  | nil => intro q hq; exact hq
  | cons ij h ih =>
    intro q hq
    simp only [List.foldl_cons]
    apply ih
    intro n
    obtain ⟨_, s2, s3, s4, s5⟩ := C13_eqTop_spec T hT Γ Δ (q ij.1) (q ij.2) (hq ij.1).1 (hq ij.2).1
    simp only [step, upd]
    by_cases h2 : n = ij.2
    · rw [if_pos h2]; subst h2
      exact ⟨s3, by rw [s5]; exact (hq _).2⟩
    · rw [if_neg h2]
      by_cases h1 : n = ij.1
      · rw [if_pos h1]; subst h1
        exact ⟨s2, trans_E T hT.eqv _ _ _ s4 (hq _).2⟩
      · rw [if_neg h1]; exact hq n

/-- the list-held pool of the driver is the function-valued pool of the theorems -/
theorem stepL_spec (l : List MObj) (ij : Nat × Nat) (h1 : ij.1 < l.length) (h2 : ij.2 < l.length) (n : Nat) :
    poolOf (stepL T l ij) n = step T (poolOf l) ij n := by
  simp only [poolOf, stepL, step, upd, List.getD_eq_getElem?_getD, List.getElem?_set, List.length_set]
  by_cases e2 : n = ij.2
  · subst e2; simp [h2]
  · by_cases e1 : n = ij.1
    · subst e1; simp [h1, e2, Ne.symm e2]
    · simp [e1, e2, Ne.symm e1, Ne.symm e2]

/-- **the outcome of `==` does not depend on the memo state nor on what was compared before**: after any history of
    comparisons over a pool of objects (each filling `_hash` slots and sharing operand tuples), `pool[i] == pool[j]` is the
    structural equality of the two structures the pool started with -/
theorem C13_eq_history_independent (hT : TermsGood T) (Γ Δ) (p : Nat → MObj) (hp : ∀ n, ok T Γ Δ (p n) = true)
    (h : List (Nat × Nat)) (i j : Nat) :
    eqM T (run T p h i) (run T p h j) = eqE T (p i).erase (p j).erase := by
  have hi := run_inv T hT Γ Δ p hp h i
  have hj := run_inv T hT Γ Δ p hp h j
  simp only [eqM, (C13_eqTop_spec T hT Γ Δ _ _ hi.1 hj.1).1]
  exact eqE_congr T hT.eqv hi.2 hj.2

/-- in particular two histories, and two memo states of the same structures, give the same outcome -/
theorem C13_eq_state_independent (hT : TermsGood T) (Γ Δ Γ' Δ') (p p' : Nat → MObj)
    (hp : ∀ n, ok T Γ Δ (p n) = true) (hp' : ∀ n, ok T Γ' Δ' (p' n) = true)
    (hs : ∀ n, eqE T (p n).erase (p' n).erase = true) (h h' : List (Nat × Nat)) (i j : Nat) :
    eqM T (run T p h i) (run T p h j) = eqM T (run T p' h' i) (run T p' h' j) := by
  rw [C13_eq_history_independent T hT Γ Δ p hp h i j, C13_eq_history_independent T hT Γ' Δ' p' hp' h' i j]
  exact eqE_congr T hT.eqv (hs i) (hs j)


/-! ### the hypotheses hold for the observers read off the regenerated table -/

open Gen.EqFields in
theorem sees_mono (p q : Row → Bool) (h : ∀ r ∈ rows, p r = true → q r = true) (cls fld : String)
    (hs : sees p cls fld = true) : sees q cls fld = true := by
  unfold sees at hs ⊢
  cases hr : rows.find? (fun r => r.kind == cls && r.field == fld) with
  | none => rfl
  | some r =>
    rw [hr] at hs
    exact h r (List.mem_of_find?_eq_some hr) hs

open Gen.EqFields in
/-- an observer that sees no field `==` does not see takes equal values on `==` terminals -/
theorem proj_of_eq (V : FView) (p : Row → Bool) (hp : ∀ r ∈ rows, p r = true → r.eqSees = true) (a b : Expr)
    (hc : clsOf a = clsOf b) (h : proj V (·.eqSees) a = proj V (·.eqSees) b) : proj V p a = proj V p b := by
  have key : ∀ e, proj V p e = (proj V (·.eqSees) e).filter (fun f => sees p (clsOf e) f.1) := by
    intro e
    simp only [proj, List.filter_filter]
    apply List.filter_congr
    intro f _
    cases h1 : sees p (clsOf e) f.1
    · rfl
    · simp [sees_mono p (·.eqSees) hp _ _ h1]
  rw [key a, key b, h, hc]

theorem tableObs_teq (V : FView) (a b : Expr) (h : (tableObs V).teq a b = true) :
    V.selfEq a = true ∧ V.selfEq b = true ∧ clsOf a = clsOf b ∧ proj V (·.eqSees) a = proj V (·.eqSees) b := by
  simpa [tableObs, and_assoc] using h

/-- **the terminal hypotheses are discharged by the regenerated table** (every field hash / repr see, `==` sees:
    `C13_fields_eq_sees_all`), for every view of terminals as class + named fields without NaN payloads -/
theorem C13_table_terms (V : FView) (hV : ∀ e, V.selfEq e = true) : TermsGood (tableObs V) where
  eqv := {
    refl := fun a _ => by simp [tableObs, hV]
    symm := fun a b _ _ h => by
      obtain ⟨h1, h2, h3, h4⟩ := tableObs_teq V a b h
      simp [tableObs, h1, h2, h3, h4]
    trans := fun a b c _ _ _ hab hbc => by
      obtain ⟨h1, _, h3, h4⟩ := tableObs_teq V a b hab
      obtain ⟨_, g2, g3, g4⟩ := tableObs_teq V b c hbc
      simp [tableObs, h1, g2, h3, h4, g3, g4] }
  typed := fun a b _ _ h => (tableObs_teq V a b h).2.2.1
  obs := fun a b _ _ h => by
    obtain ⟨_, _, h3, h4⟩ := tableObs_teq V a b h
    have hh := proj_of_eq V (·.hashSees) (fun r hr => (C13_fields_eq_sees_all r hr).1) a b h3 h4
    have hr := proj_of_eq V (·.reprSees) (fun r hr => (C13_fields_eq_sees_all r hr).2.1) a b h3 h4
    simp only [tableObs, h3, hh, hr, and_self]

/-- the symmetric and transitive part, the class test and the hash / repr compatibility need no side condition -/
theorem C13_table_terms_nan (V : FView) : TermTyped (tableObs V) ∧ TermsOK (tableObs V) ∧
    (∀ a b, (tableObs V).teq a b = true → (tableObs V).teq b a = true) := by
  refine ⟨fun a b _ _ h => (tableObs_teq V a b h).2.2.1, ?_, ?_⟩
  · intro a b _ _ h
    obtain ⟨_, _, h3, h4⟩ := tableObs_teq V a b h
    have hh := proj_of_eq V (·.hashSees) (fun r hr => (C13_fields_eq_sees_all r hr).1) a b h3 h4
    have hr := proj_of_eq V (·.reprSees) (fun r hr => (C13_fields_eq_sees_all r hr).2.1) a b h3 h4
    simp only [tableObs, h3, hh, hr, and_self]
  · intro a b h
    obtain ⟨h1, h2, h3, h4⟩ := tableObs_teq V a b h
    simp [tableObs, h1, h2, h3, h4]

/-! ### NaN literals: the full statement is false

FULL STATEMENT (false of the code): for all expressions, `==` is reflexive and its outcome depends on the two structures only.
`FloatValue(nan) == FloatValue(nan)` is `False` (`ScalarValue.__eq__` compares the payloads with Python's `==`), while the
identity cut-offs of `expr_equals` answer `True` without looking: the outcome depends on which objects are shared. -/

namespace NaN
/-- `FloatValue(nan)` -/
def nan : Expr := .real 0 0
def f : Expr := .term { cls := "Coefficient", key := "f", shape := [] }
/-- `e1 = Sum(n, f)`; `e2 = Sum(n, f)` built again from the same two objects; `e3 = Sum(n', f)` with another `FloatValue(nan)` -/
def e1 : MObj := .node 1 .sum [] 11 [.leaf 5 nan none, .leaf 6 f none] none
def e2 : MObj := .node 2 .sum [] 12 [.leaf 5 nan none, .leaf 6 f none] none
def e3 : MObj := .node 3 .sum [] 13 [.leaf 7 nan none, .leaf 6 f none] none
end NaN

open NaN in
/-- a NaN literal is not `==` to itself; an expression containing it is `==` to itself and to a rebuild that shares the
    literal object, and `!=` to a structurally identical expression with another NaN object (e.g. its own pickle round trip) -/
theorem C13_eq_equivalence_counterexample :
    stdObs.teq nan nan = false ∧ ¬ TermEquiv stdObs ∧
    eqM stdObs e1 e1 = true ∧ eqM stdObs e1 e2 = true ∧ eqM stdObs e1 e3 = false ∧
    e1.erase = e3.erase ∧ e2.erase = e3.erase ∧
    hashOf stdObs e1 = hashOf stdObs e3 ∧ reprE stdObs e1.erase = reprE stdObs e3.erase := by
  refine ⟨by decide +kernel, ?_, by decide +kernel, by decide +kernel, by decide +kernel, rfl, rfl, rfl, rfl⟩
  intro h
  have := h.refl nan rfl
  revert this
  decide +kernel

open NaN in
/-- negation of history / state independence without the side condition: two pools with the same structures -/
theorem C13_eq_history_independent_counterexample :
    ∃ p p' : Nat → MObj, (∀ n, (p n).erase = (p' n).erase) ∧ eqM stdObs (p 0) (p 1) ≠ eqM stdObs (p' 0) (p' 1) :=
  ⟨fun n => if n = 0 then e1 else e2, fun n => if n = 0 then e1 else e3,
   by intro n; by_cases h : n = 0 <;> simp [h, e2, e3, erase, eraseL], by decide +kernel⟩

/-- side condition of the `_partial` statements: no terminal has a payload that is not equal to itself -/
def NoNaN (V : FView) : Prop := ∀ e, V.selfEq e = true

/-- **partial (side condition `NoNaN`)**: for the table's observers `==` is an equivalence relation, implies equal hash and
    identical repr, and is independent of memo state and comparison history -/
theorem C13_eq_partial (V : FView) (hV : NoNaN V) (Γ Δ) (p : Nat → MObj) (hp : ∀ n, ok (tableObs V) Γ Δ (p n) = true)
    (h : List (Nat × Nat)) (i j : Nat) :
    eqM (tableObs V) (run (tableObs V) p h i) (run (tableObs V) p h j) = eqE (tableObs V) (p i).erase (p j).erase ∧
    (eqE (tableObs V) (p i).erase (p j).erase = true →
      hashE (tableObs V) (p i).erase = hashE (tableObs V) (p j).erase ∧
      reprE (tableObs V) (p i).erase = reprE (tableObs V) (p j).erase) :=
  ⟨C13_eq_history_independent _ (C13_table_terms V hV) Γ Δ p hp h i j,
   C13_eq_implies_hash_repr _ (C13_table_terms V hV).obs _ _⟩


/-! ### the hypotheses are satisfiable by non-trivial instances -/

namespace Ex
/-- a NaN-free view: the standard fields, every payload equal to itself -/
def V : FView := ⟨stdFields, fun _ => true⟩
def f : Expr := .term { cls := "Coefficient", key := "f", shape := [], dom := [.s "count", .n 3] }
def g : Expr := .term { cls := "Coefficient", key := "f", shape := [], dom := [.s "count", .n 4] }
/-- `a = Sum(f, Abs(g))` never hashed; `b` the same structure built from other objects, fully hashed; `c` a near miss -/
def a : MObj := .node 1 .sum [] 11 [.leaf 2 f none, .node 3 .abs [] 13 [.leaf 4 g none] none] none
def b : MObj := fill (tableObs V) (.node 5 .sum [] 15 [.leaf 6 f none, .node 7 .abs [] 17 [.leaf 8 g none] none] none)
def c : MObj := .node 9 .sum [] 19 [.leaf 2 f none, .node 10 .abs [] 20 [.leaf 2 f none] none] none
def Γ (t : Nat) : Expr :=
  if t = 2 ∨ t = 6 then f else if t = 4 ∨ t = 8 then g else if t = 3 ∨ t = 7 then .op .abs [] [g]
  else if t = 10 then .op .abs [] [f] else if t = 9 then c.erase else a.erase
def Δ (t : Nat) : List Expr :=
  if t = 13 ∨ t = 17 then [g] else if t = 20 then [f] else if t = 19 then [f, .op .abs [] [f]] else [f, .op .abs [] [g]]
def pool (n : Nat) : MObj := if n = 0 then a else if n = 1 then b else c
end Ex

open Ex in
example : ok (tableObs V) Γ Δ a = true ∧ ok (tableObs V) Γ Δ b = true ∧ ok (tableObs V) Γ Δ c = true := by decide +kernel
open Ex in
example : ∀ n, ok (tableObs V) Γ Δ (pool n) = true := by
  intro n; unfold pool; split
  · decide +kernel
  · split <;> decide +kernel
open Ex in
/-- the comparison fills `a`'s slots and makes it adopt `b`'s operand tuple; `a == c` is false -/
example : eqM (tableObs V) a b = true ∧ (eqTop (tableObs V) a b).2.1.otag? = some 15 ∧ a.otag? = some 11 ∧
    a.memo = none ∧ (eqTop (tableObs V) a b).2.1.memo.isSome = true ∧ eqM (tableObs V) a c = false := by decide +kernel
open Ex in
example := C13_eq_history_independent (tableObs V) (C13_table_terms V (fun _ => rfl)) Γ Δ pool
  (by intro n; unfold pool; split
      · decide +kernel
      · split <;> decide +kernel) [(0, 1), (2, 0), (1, 1), (0, 2)] 0 1
open Ex in
example : TermsGood (tableObs V) := C13_table_terms V (fun _ => rfl)

end UflVerif.C13
