/-
C09 — the hypotheses of the ReciprocalCanceller theorems are satisfiable: the real numbers with `Power := Real.rpow`,
`Abs := |·|` satisfy `FoldOK` and `PowLaws` (Pos x := 0 < x); and over the reals x = -2 is a concrete counterexample to the
full statement for the code as it is.  (Separate module: it imports Mathlib's real powers.)
-/
import Mathlib.Analysis.SpecialFunctions.Pow.Real
import UflVerif.Props.C09

namespace UflVerif.C09
open UflVerif Expr C05 FIlemmas Finset

/-! ## the hypotheses are satisfiable: the real numbers -/

/-- the real interpretation: `Power` is `Real.rpow`, `Abs` the absolute value; terminals are read from `t` -/
noncomputable def realEnv (t : Side → String → List Nat → ℝ) : Env ℝ where
  term := t
  jet := fun _ _ _ _ => 0
  fn := fun _ x => x
  fn2 := fun n x y => if n = "Power" then x ^ y else 0
  abs := fun x => |x|
  conj := id
  re := id
  im := fun _ => 0
  i := 0
  lt := fun x y => decide (x < y)
  eq := fun x y => decide (x = y)

theorem C09_real_env_ok (t : Side → String → List Nat → ℝ) :
    FoldOK (realEnv t) ∧ PowLaws (realEnv t) (fun x => 0 < x) := by
  refine ⟨⟨?_, ?_, ?_, ?_, ?_, ?_, ?_⟩, ⟨?_, ?_, ?_, ?_⟩⟩
  · intro x; simp [realEnv]
  · intro x; simp [realEnv]
  · intro q hq
    simp only [realEnv, ↓reduceIte]
    exact Real.zero_rpow (by exact_mod_cast hq.ne')
  · intro x n _; simp only [realEnv, ↓reduceIte]; exact Real.rpow_intCast x n
  · simp [realEnv]
  · intro x; simp [realEnv]
  · intro q
    simp only [realEnv]
    by_cases hq : q < 0
    · have : (q : ℝ) < 0 := by exact_mod_cast hq
      simp [hq, abs_of_neg this]
    · have : (0 : ℝ) ≤ (q : ℝ) := by exact_mod_cast (not_lt.mp hq)
      simp [hq, abs_of_nonneg this]
  · intro x hx; exact hx.ne'
  · intro x y hx; simp only [realEnv, ↓reduceIte]; exact Real.rpow_pos_of_pos hx y
  · intro x a b hx; simp only [realEnv, ↓reduceIte]; exact (Real.rpow_add hx a b).symm
  · intro x a b hx; simp only [realEnv, ↓reduceIte]; exact (Real.rpow_mul hx.le a b).symm

/-- **the full statement is false of the ReciprocalCanceller as it is**: over the reals, with x = -2 the input
    `(x**2)**0.5 * (1/x)` is defined (`defPred`: the inner power has an integer exponent, the outer one the positive base 4,
    the denominator is not zero) and has the value -1, the output has the value 1. -/
theorem C09_rc_counterexample_real :
    ∃ (ρ : Env ℝ) (e r : Expr), FoldOK ρ ∧ PowLaws ρ (fun x => 0 < x) ∧ WF e = true ∧
      Good (defPred ρ (fun x => 0 < x) (fun _ => True)) e ∧ rcWith .current e = some r ∧
      eval ρ .none (fun _ => 0) e [] ≠ eval ρ .none (fun _ => 0) r [] := by
  let t : Side → String → List Nat → ℝ := fun _ _ _ => -2
  have h4 : ((-2 : ℝ) ^ (2 : ℝ)) = 4 := by
    rw [show (2 : ℝ) = ((2 : ℕ) : ℝ) by norm_num, Real.rpow_natCast]; norm_num
  have h2 : ((4 : ℝ) ^ ((1 : ℝ) / 2)) = 2 := by
    have : (4 : ℝ) = 2 ^ (2 : ℝ) := by rw [show (2 : ℝ) = ((2 : ℕ) : ℝ) by norm_num, Real.rpow_natCast]; norm_num
    rw [this, ← Real.rpow_mul (by norm_num)]; norm_num
  have n1 : ¬ ("Coefficient" = "Identity") := by decide
  have n2 : ¬ ("Coefficient" = "Label") := by decide
  have hx : ∀ s ι, eval (realEnv t) s ι tx [] = -2 := by
    intro s ι; simp only [tx, eval, n1, n2, ↓reduceIte, realEnv, t]
  have hp2 : ∀ s ι, eval (realEnv t) s ι (.op .power [] [tx, .int 2]) [] = 4 := by
    intro s ι
    simp only [eval, hx, realEnv, ↓reduceIte, Int.cast_ofNat]
    exact h4
  have hres : rcWith .current powerMerge = some (.int 1) := by
    have hd := C09_rc_rewrites_to_one.2.1
    cases hr : rcWith .current powerMerge with
    | none => rw [hr] at hd; cases hd
    | some r =>
      rw [hr] at hd
      simp only [Option.map_some, Option.some.injEq] at hd
      rw [beq_eq r (.int 1) hd]
  refine ⟨realEnv t, powerMerge, .int 1, (C09_real_env_ok t).1, (C09_real_env_ok t).2, by decide, ?_, hres, ?_⟩
  · refine (good_product _ _ _ _).mpr ⟨(good_power _ _ _ _).mpr ⟨(good_power _ _ _ _).mpr ⟨trivial, by simp [Good], ?_⟩,
      by simp [Good], ?_⟩, (good_division _ _ _ _).mpr ⟨by simp [Good], trivial, ?_⟩⟩
    · intro _ _ s ι
      exact Or.inr ⟨2, by simp [eval], Or.inl (by rw [hx]; norm_num)⟩
    · intro _ _ s ι
      left; rw [hp2]; norm_num
    · intro _ s ι
      rw [hx]; norm_num
  · have e1 : eval (realEnv t) Side.none (fun _ => 0) powerMerge [] = -1 := by
      have : eval (realEnv t) Side.none (fun _ => 0) powerMerge [] =
          (eval (realEnv t) Side.none (fun _ => 0) (.op .power [] [tx, .int 2]) []) ^ (((1 : ℤ) : ℝ) / ((2 : ℕ) : ℝ)) *
            (((1 : ℤ) : ℝ) / eval (realEnv t) Side.none (fun _ => 0) tx []) := by
        simp only [powerMerge, eval, realEnv, ↓reduceIte]
      rw [this, hp2, hx]
      have : (((1 : ℤ) : ℝ) / ((2 : ℕ) : ℝ)) = (1 : ℝ) / 2 := by norm_num
      rw [this, h2]; norm_num
    rw [e1]
    simp only [eval, Int.cast_one]
    norm_num

end UflVerif.C09
