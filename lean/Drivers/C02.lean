import UflVerif.Model.SExpr
import UflVerif.Model.DerivOK
import UflVerif.Model.DerivCD
open UflVerif SExp

/- requests (one S-expression per line), one reply line each:
   (gateaux e (wkey vterm)*)   -> (ok <expr>) | (raises) | (unsupported)      apply_derivatives(CoefficientDerivative(e, w, v, {}))
   (variable e labelkey)       -> ...                                         apply_derivatives(VariableDerivative(e, variable(..)))
   (coeff e ukey)              -> ...                                         apply_derivatives(VariableDerivative(e, u)), u a scalar Coefficient
   (dok e (wkey vterm)*)       -> (ok <WF 0|1> <DOK 0|1>)                     domain and side conditions of C02_gateaux_value_partial
   (dokv e labelkey coeffkey)  -> (ok <WF 0|1> <DOK 0|1>)                     the same for the variable ruleset (`-` for an absent key)
   (gradrelated <refuse 0|1> g) -> ...                                        the Grad handler on a coefficient with a user-supplied derivative relation
   keys are percent-encoded reprs; `vterm` is a terminal in the expression wire format. -/
def showRes : Option Expr → String
  | some e => if Expr.isUnsupported e then "(unsupported)" else s!"(ok {e.print})"
  | none => "(raises)"

def pairOf : SExp → Option (String × TermData)
  | .list [.atom key, v] =>
    (match Expr.ofSExp v with
     | some (.term d) => some (SExp.decode key, d)
     | _ => none)
  | _ => none

def answer (line : String) : String :=
  match SExp.read line with
  | some (.list (.atom "gateaux" :: e :: pairs)) =>
    (match Expr.ofSExp e, pairs.mapM pairOf with
     | some x, some wv => showRes (Expr.gateauxD wv x)
     | _, _ => "(parse-error)")
  | some (.list (.atom "dok" :: e :: pairs)) =>
    (match Expr.ofSExp e, pairs.mapM pairOf with
     | some x, some wv => s!"(ok {if Expr.WF x then 1 else 0} {if Expr.DOK (.gateaux wv) x then 1 else 0})"
     | _, _ => "(parse-error)")
  | some (.list [.atom "dokv", e, .atom label, .atom coeff]) =>
    (match Expr.ofSExp e with
     | some x => s!"(ok {if Expr.WF x then 1 else 0} {if Expr.DOK (.variable (SExp.decode label) (SExp.decode coeff)) x then 1 else 0})"
     | none => "(parse-error)")
  | some (.list [.atom "gradrelated", .atom fl, g]) =>
    (match Expr.ofSExp g with
     | some x => showRes (Expr.gateauxGradRelated (fl == "1") x)
     | none => "(parse-error)")
  | some (.list [.atom "variable", e, .atom key]) =>
    (match Expr.ofSExp e with
     | some x => showRes (Expr.variableD (SExp.decode key) x)
     | none => "(parse-error)")
  | some (.list [.atom "coeff", e, .atom key]) =>
    (match Expr.ofSExp e with
     | some x => showRes (Expr.coeffD (SExp.decode key) x)
     | none => "(parse-error)")
  | _ => "(bad-request)"

partial def loop (h : IO.FS.Stream) : IO Unit := do
  let line ← h.getLine
  if line.isEmpty then return ()
  IO.println (answer line)
  loop h

def main : IO Unit := do loop (← IO.getStdin)
