import Std.Data.HashMap
import UflVerif.Model.Driver
import UflVerif.Model.FormTransform
open UflVerif SExp

/- C16 driver.  Requests (one S-expression per line), one reply line each:
   (extract (key*) e)                 -> (ok <part> (key*)) | (raises) | (unsupported)      PartExtracter(W).visit(e)
   (lhs F) (rhs F) (functional F) (adjoint F) (arity n F) (action F (e*)) (energy F e space)
   (split ix iy F)   ix, iy = number | -                                                    FormSplitter.split
                                      -> (ok (tag e)*) | (raises) | (unsupported)
   (args F)                           -> (ok key*) | (raises)
   F = ((tag e)*)
   (env id base entries)              -> (ok)                 define valuation `id` = valuation `base` (or `-`) overridden by
                                         entries = ((V side key (c*) rn rd in id) | (J side key (c*) (d*) rn rd in id))*,
                                         side = n | p | m  (no restriction, '+', '-')
   (evalq e (c*) id ((i v)*))         -> (ok rn/rd in/id)     denotational eval over the Gaussian rationals under valuation `id`
   (evalqs e (c*) (id*) ((i v)*))     -> (ok (rn/rd in/id)*)  the same under several valuations
   The driver keeps the defined valuations (the only state).  -/

/-- Gaussian rationals -/
structure QI where
  re : Rat
  im : Rat
  deriving BEq, Inhabited

namespace QI
instance : Add QI := ⟨fun a b => ⟨a.re + b.re, a.im + b.im⟩⟩
instance : Sub QI := ⟨fun a b => ⟨a.re - b.re, a.im - b.im⟩⟩
instance : Neg QI := ⟨fun a => ⟨-a.re, -a.im⟩⟩
instance : Mul QI := ⟨fun a b => ⟨a.re * b.re - a.im * b.im, a.re * b.im + a.im * b.re⟩⟩
instance : Div QI := ⟨fun a b =>
  let n := b.re * b.re + b.im * b.im
  ⟨(a.re * b.re + a.im * b.im) / n, (a.im * b.re - a.re * b.im) / n⟩⟩
instance : Zero QI := ⟨⟨0, 0⟩⟩
instance : One QI := ⟨⟨1, 0⟩⟩
instance : IntCast QI := ⟨fun n => ⟨(n : Rat), 0⟩⟩
instance : NatCast QI := ⟨fun n => ⟨(n : Rat), 0⟩⟩
def pow (x : QI) : Nat → QI
  | 0 => 1
  | n + 1 => pow x n * x
end QI

structure QEnv where
  vals : Std.HashMap String QI := {}                 -- "side|key|component" ↦ value
  jets : Std.HashMap String QI := {}                 -- "side|key|component|derivatives" ↦ value

def qiOf (a b c d : SExp) : Option QI := do
  pure ⟨(← ratOf a b), (← ratOf c d)⟩

def vkey (side key : String) (c : List Nat) : String := side ++ "|" ++ key ++ "|" ++ toString c
def jkey (side key : String) (c ds : List Nat) : String := side ++ "|" ++ key ++ "|" ++ toString c ++ "|" ++ toString ds

def QEnv.extend (base : QEnv) : SExp → Option QEnv
  | .list items => do
    let mut vals := base.vals
    let mut jets := base.jets
    for it in items do
      match it with
      | .list [.atom "V", .atom side, .atom key, c, a, b, x, y] =>
        vals := vals.insert (vkey side (SExp.decode key) (← natList? c)) (← qiOf a b x y)
      | .list [.atom "J", .atom side, .atom key, c, ds, a, b, x, y] =>
        jets := jets.insert (jkey side (SExp.decode key) (← natList? c) (← natList? ds)) (← qiOf a b x y)
      | _ => none
    pure { vals := vals, jets := jets }
  | _ => none

def sideTag : Side → String
  | .none => "n" | .plus => "p" | .minus => "m"

def strCode (s : String) : Nat := s.toList.foldl (fun h c => (h * 31 + c.toNat) % 1009) 7

/-- An arbitrary fixed interpretation of the non-algebraic operations: the C16 statements hold for
    every interpretation, the same one is used on both sides of every comparison. -/
def QEnv.env (r : QEnv) : Env QI where
  term := fun s key c => (r.vals.get? (vkey (sideTag s) key c)).getD 0
  jet := fun s key c ds => (r.jets.get? (jkey (sideTag s) key c ds)).getD 0
  fn := fun n x => x * x * ⟨(strCode n % 5 : Nat), 0⟩ + x + ⟨(strCode n % 7 : Nat), 1⟩
  fn2 := fun n x y =>
    if n == "Power" && y.im == 0 && y.re.den == 1 then
      (if y.re.num ≥ 0 then QI.pow x y.re.num.toNat else QI.pow (1 / x) (-y.re.num).toNat)
    else x * y + x + ⟨(strCode n % 3 : Nat), 0⟩
  abs := fun x => ⟨(if x.re < 0 then -x.re else x.re) + (if x.im < 0 then -x.im else x.im), 0⟩
  conj := fun x => ⟨x.re, -x.im⟩
  re := fun x => ⟨x.re, 0⟩
  im := fun x => ⟨x.im, 0⟩
  i := ⟨0, 1⟩
  lt := fun x y => decide (x.re < y.re)
  eq := fun x y => x == y

def idxEnvOf (s : SExp) : IdxEnv :=
  match s with
  | .list ps => ps.foldl (fun ι p => match p with
      | .list [a, b] => match toNat? a, toNat? b with
        | some c, some v => ι.set c v
        | _, _ => ι
      | _ => ι) (fun _ => 0)
  | _ => fun _ => 0

mutual
def hasMarker : Expr → Bool
  | .term d => d.cls == "@unsupported"
  | .op _ _ args => hasMarkerL args
  | _ => false
def hasMarkerL : List Expr → Bool
  | [] => false
  | a :: as => hasMarker a || hasMarkerL as
end

def keysS (ks : List String) : String := "(" ++ " ".intercalate (ks.map SExp.encode) ++ ")"

def showForm : Option Expr.FormM → String
  | none => "(raises)"
  | some F =>
    if F.any (fun p => hasMarker p.2) then "(unsupported)"
    else "(ok" ++ String.join (F.map (fun p => s!" ({p.1} {p.2.print})")) ++ ")"

def formOf : SExp → Option Expr.FormM
  | .list items => items.mapM (fun it => match it with
      | .list [t, e] => do pure ((← toNat? t), (← Expr.ofSExp e))
      | _ => none)
  | _ => none

def optInt : SExp → Option (Option Int)
  | .atom "-" => some none
  | a => (toInt? a).map some

def keysOf : SExp → Option (List String)
  | .list ks => ks.mapM (fun k => match k with | .atom s => some (SExp.decode s) | _ => none)
  | _ => none

def rb : Expr.Rb := Expr.rebuildFT

abbrev Envs := Std.HashMap String QEnv

def answer (envs : Envs) (line : String) : String :=
  match SExp.read line with
  | some (.list [.atom "extract", ks, e]) =>
    (match keysOf ks, Expr.ofSExp e with
     | some W, some x =>
       (match Expr.extract rb W x with
        | none => "(raises)"
        | some (p, P) => if hasMarker p then "(unsupported)" else s!"(ok {p.print} {keysS P})")
     | _, _ => "(parse-error)")
  | some (.list [.atom "lhs", f]) => (match formOf f with | some F => showForm (Expr.lhsForm rb F) | none => "(parse-error)")
  | some (.list [.atom "rhs", f]) => (match formOf f with | some F => showForm (Expr.rhsForm rb F) | none => "(parse-error)")
  | some (.list [.atom "functional", f]) => (match formOf f with | some F => showForm (Expr.functionalForm rb F) | none => "(parse-error)")
  | some (.list [.atom "adjoint", f]) => (match formOf f with | some F => showForm (Expr.adjointForm rb Expr.mkArgument F) | none => "(parse-error)")
  | some (.list [.atom "arity", n, f]) =>
    (match toNat? n, formOf f with | some k, some F => showForm (Expr.arityForm rb F k) | _, _ => "(parse-error)")
  | some (.list [.atom "action", f, .list cs]) =>
    (match formOf f, Expr.ofSExpL cs with | some F, some c => showForm (Expr.actionForm rb F c) | _, _ => "(parse-error)")
  | some (.list [.atom "energy", f, c, .atom sp]) =>
    (match formOf f, Expr.ofSExp c with | some F, some x => showForm (Expr.energyForm rb F x (SExp.decode sp)) | _, _ => "(parse-error)")
  | some (.list [.atom "split", ix, iy, f]) =>
    (match optInt ix, optInt iy, formOf f with
     | some a, some b, some F => showForm (Expr.splitForm rb a b F)
     | _, _, _ => "(parse-error)")
  | some (.list [.atom "args", f]) =>
    (match formOf f with
     | some F => (match Expr.formArgs F with | some as => "(ok " ++ " ".intercalate (as.map (fun d => SExp.encode d.key)) ++ ")" | none => "(raises)")
     | none => "(parse-error)")
  | some (.list [.atom "evalq", e, c, .atom id, idx]) =>
    (match Expr.ofSExp e, natList? c, envs.get? id with
     | some x, some comp, some r =>
       let v := Expr.eval r.env .none (idxEnvOf idx) x comp
       s!"(ok {showRat v.re} {showRat v.im})"
     | _, _, _ => "(parse-error)")
  | some (.list [.atom "evalqs", e, c, .list ids, idx]) =>
    (match Expr.ofSExp e, natList? c with
     | some x, some comp =>
       let ι := idxEnvOf idx
       "(ok" ++ String.join (ids.map (fun i => match i with
         | .atom id => (match envs.get? id with
           | some r => let v := Expr.eval r.env .none ι x comp; s!" {showRat v.re} {showRat v.im}"
           | none => " ? ?")
         | _ => " ? ?")) ++ ")"
     | _, _ => "(parse-error)")
  | _ => "(bad-request)"

/-- `(env id base entries)` -/
def defEnv (envs : Envs) (line : String) : Option Envs :=
  match SExp.read line with
  | some (.list [.atom "env", .atom id, .atom base, entries]) =>
    let b : QEnv := if base == "-" then {} else (envs.get? base).getD {}
    (b.extend entries).map (fun e => envs.insert id e)
  | _ => none

partial def loop (h : IO.FS.Stream) (envs : Envs) : IO Unit := do
  let line ← h.getLine
  if line.isEmpty then return ()
  if line.startsWith "(env " then
    match defEnv envs line with
    | some envs' => IO.println "(ok)"; loop h envs'
    | none => IO.println "(parse-error)"; loop h envs
  else
    IO.println (answer envs line)
    loop h envs

def main : IO Unit := do loop (← IO.getStdin) {}
