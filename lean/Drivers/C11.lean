import UflVerif.Model.SExpr
import UflVerif.Model.SigWire
import UflVerif.Model.SigInj
open UflVerif SExp UflVerif.SigWire UflVerif.Inj

/- C11 driver.  One S-expression request per line, one reply per line.  Expressions, meshes, spaces, subdomain ids: Model/SigWire.lean.

   fform ::= (fform (fitg itype mesh sub mdv cexpr)..)          a form with raw metadata
   mdv   ::= (L ~ty ~val ~printed) | (A mdv ~printed) | (S t|l mdv..) | (D (~key mdv)..)     strings: "~" ++ percent-encoding
   cfg   ::= 0 | 1      `str` leaves of the metadata canonicalised by str() (0, the tree under test) or repr() (1, fix_C15_2)

   (fsig z cfg fform)          -> (ok <sigdata>) | (raises)           data hashed by compute_form_signature, then the outer digest
   (ftoks z cfg fform)         -> (ok <tokens>) | (raises)            the same data printed as tokens (`Inj.toks` of the flattened tree)
   (pair z cfg fformA fformB)  -> (ok sigEq normEq thmA thmB admA admB)
        sigEq  : the two signature data are equal           normEq : the two normal forms (`Inj.normalize`) are equal
        thmX   : form X satisfies the hypotheses of C11_inj (does not raise, known operators, no complex literal, no base form operator)
        admX   : a count identifies its object in form X (`Inj.Admissible`)
   (norm z cfg fform)          -> (ok <form>) | (raises)              the normal form, as a `form`
-/

def tildeOf : SExp → Option String
  | .atom a => if a.startsWith "~" then some (SExp.decode (a.drop 1).toString) else none
  | _ => none

mutual
def mdvOf : SExp → Option FormModel.MDV
  | .list [.atom "L", ty, v, p] => do pure (.leaf (← tildeOf ty) (← tildeOf v) (← tildeOf p))
  | .list [.atom "A", l, p] => do pure (.arr (← mdvOf l) (← tildeOf p))
  | .list (.atom "S" :: .atom k :: xs) => do pure (.seq (k == "t") (← mdvOfL xs))
  | .list (.atom "D" :: kvs) => do
      let ps ← mdvKV kvs
      pure (.dict (ps.map (·.1)) (ps.map (·.2)))
  | _ => none
def mdvOfL : List SExp → Option (List FormModel.MDV)
  | [] => some []
  | x :: xs => do pure ((← mdvOf x) :: (← mdvOfL xs))
def mdvKV : List SExp → Option (List (String × FormModel.MDV))
  | [] => some []
  | .list [k, v] :: xs => do pure (((← tildeOf k), (← mdvOf v)) :: (← mdvKV xs))
  | _ => none
end

def fintegralOf : SExp → Option FIntegral
  | .list [.atom "fitg", .atom it, m, sub, md, e] => do
      pure { integrand := (← cexprOf e), itype := SExp.decode it, mesh := (← meshOf m), sub := (← subOf sub), md := (← mdvOf md) }
  | _ => none

def fformOf : SExp → Option FForm
  | .list (.atom "fform" :: is) => is.mapM fintegralOf
  | _ => none

def cfgOf (s : String) : FormModel.CanonCfg := { arrTolist := true, strRepr := s == "1" }

mutual
def canonS : FormModel.Canon → SExp
  | .s x => .list [.atom "ms", .atom (SExp.encode x)]
  | .t xs => .list (.atom "mt" :: canonSL xs)
def canonSL : List FormModel.Canon → List SExp
  | [] => []
  | x :: xs => canonS x :: canonSL xs
end

def subS : SubId → SExp
  | .int v => .list [.atom "si", .atom (toString v)]
  | .str s => .list [.atom "ss", .atom (SExp.encode s)]
  | .tup xs => .list (.atom "st" :: xs.map fun v => .atom (toString v))

def integralS (i : CIntegral) : SExp :=
  .list [.atom "itg", .atom (SExp.encode i.itype), meshS i.mesh, subS i.sub, canonS i.metadata, cexprS i.integrand]

def formS (f : CForm) : SExp := .list (.atom "form" :: f.map integralS)

/- digests as trees: `DTree.node` is an injective "hash" -/
inductive DTree
  | node (x : Flat DTree)

partial def tokS : Tok DTree → SExp
  | .lpar => .atom "LP" | .rpar => .atom "RP" | .lbr => .atom "LB" | .rbr => .atom "RB" | .comma => .atom "CM"
  | .str s => .list [.atom "s", .atom ("~" ++ SExp.encode s)]
  | .raw s => .list [.atom "r", .atom ("~" ++ SExp.encode s)]
  | .int v => .list [.atom "i", .atom (toString v)]
  | .none => .atom "NONE"
  | .bytes (.node x) => .list (.atom "H" :: (toks x).map tokS)
  | .fstr parts => .list (.atom "F" :: parts.map tokS)

def optSigBeq : Option SigData → Option SigData → Bool
  | some a, some b => SigData.beq a b
  | none, none => true
  | _, _ => false

def thmOk (f : CForm) : Bool := !Sig.raises f && wfForm f && noBFOForm f

def b (x : Bool) : String := if x then "1" else "0"

def answer (line : String) : String :=
  match SExp.read line with
  | some (.list [.atom "fsig", .atom z, .atom c, f]) =>
    (match fformOf f with
     | some g => (match fullData (cfgOf c) (z == "1") g with
        | some d => s!"(ok {(sigS (.hash d)).str})"
        | none => "(raises)")
     | none => "(parse-error)")
  | some (.list [.atom "ftoks", .atom z, .atom c, f]) =>
    (match fformOf f with
     | some g => (match fullData (cfgOf c) (z == "1") g with
        | some d => "(ok " ++ (SExp.list ((toks (flatten DTree.node d)).map tokS)).str ++ ")"
        | none => "(raises)")
     | none => "(parse-error)")
  | some (.list [.atom "pair", .atom z, .atom c, fa, fb]) =>
    (match fformOf fa, fformOf fb with
     | some x, some y =>
       let zz := z == "1"
       let cx := canonForm (cfgOf c) x
       let cy := canonForm (cfgOf c) y
       let sigEq := optSigBeq (Sig.formData zz cx) (Sig.formData zz cy)
       let normEq := formBeq (normalize zz cx) (normalize zz cy)
       s!"(ok {b sigEq} {b normEq} {b (thmOk cx)} {b (thmOk cy)} {b (Admissible (Sig.envOf zz cx))} {b (Admissible (Sig.envOf zz cy))})"
     | _, _ => "(parse-error)")
  | some (.list [.atom "norm", .atom z, .atom c, f]) =>
    (match fformOf f with
     | some g =>
       let cg := canonForm (cfgOf c) g
       if Sig.raises cg then "(raises)" else s!"(ok {(formS (normalize (z == "1") cg)).str})"
     | none => "(parse-error)")
  | _ => "(bad-request)"

partial def loop (h : IO.FS.Stream) : IO Unit := do
  let line ← h.getLine
  if line.isEmpty then return ()
  IO.println (answer line)
  loop h

def main : IO Unit := do loop (← IO.getStdin)
