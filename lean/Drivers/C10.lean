import UflVerif.Model.Driver
import UflVerif.Model.IndexPasses
import UflVerif.Model.IndexSubst
open UflVerif SExp

/- (renumber e) | (rct e) | (expand e)  ->  (ok <expr>) | (raises) | (unsupported) -/
def showRes : Option Expr → String
  | some e => if Expr.isUnsupported e then "(unsupported)" else s!"(ok {e.print})"
  | none => "(raises)"

def answer (line : String) : String :=
  match SExp.read line with
  | some (.list [.atom "renumber", e]) =>
    (match Expr.ofSExp e with
     | some x => showRes (Expr.renumber x)
     | none => "(parse-error)")
  | some (.list [.atom "rct", e]) =>
    (match Expr.ofSExp e with
     | some x => showRes (Expr.rct x)
     | none => "(parse-error)")
  | some (.list [.atom "rctOld", e]) =>
    (match Expr.ofSExp e with
     | some x => showRes (Expr.rctOld x)
     | none => "(parse-error)")
  | some (.list [.atom "rctPlain", e]) =>
    (match Expr.ofSExp e with
     | some x => showRes (Expr.rctPlain x)
     | none => "(parse-error)")
  | some (.list [.atom "expand", e]) =>
    (match Expr.ofSExp e with
     | some x => showRes (Expr.expand x)
     | none => "(parse-error)")
  | _ => "(bad-request)"

partial def loop (h : IO.FS.Stream) : IO Unit := do
  let line ← h.getLine
  if line.isEmpty then return ()
  IO.println (answer line)
  loop h

def main : IO Unit := do loop (← IO.getStdin)
