import UflVerif.Model.Sobolev
open UflVerif.Sobolev
def main (args : List String) : IO Unit := do
  let maxlen := (args.head? >>= String.toNat?).getD 2
  let dom := domain maxlen
  for a in dom do
    for b in dom do
      IO.println (line a b)
