import UflVerif.Model.SExpr
import UflVerif.Model.Arity
open UflVerif SExp Arity

/- requests (one S-expression per line), one reply line each:
   (arity <strict 0|1> e)                  -> (ok (<key> <0|1>)*) | (err <site>)     ArityChecker through map_expr_dag
   (check <strict 0|1> <cplx 0|1> e (t*))  -> (ok (<key> <0|1>)*) | (err <site>)     check_integrand_arity(e, arguments, complex_mode)
   `t` are Argument terminals in the expression wire format. -/

def showAr (a : Ar) : String :=
  "(ok" ++ String.join (a.map fun p => s!" ({SExp.encode p.1.key} {if p.2 then 1 else 0})") ++ ")"

def showRes : Except Err Ar → String
  | .ok a => showAr a
  | .error e => s!"(err {e.str})"

def flag : SExp → Option Bool
  | .atom "0" => some false
  | .atom "1" => some true
  | _ => none

def termsOf : List Expr → Option (List TermData)
  | [] => some []
  | .term d :: rest => (termsOf rest).map (d :: ·)
  | _ => none

def answer (line : String) : String :=
  match SExp.read line with
  | some (.list [.atom "arity", st, e]) =>
    (match flag st, Expr.ofSExp e with
     | some s, some x => showRes (arity s x)
     | _, _ => "(parse-error)")
  | some (.list [.atom "check", st, cm, e, .list ts]) =>
    (match flag st, flag cm, Expr.ofSExp e, (Expr.ofSExpL ts).bind termsOf with
     | some s, some c, some x, some args => showRes (checkIntegrandArity s x args c)
     | _, _, _, _ => "(parse-error)")
  | _ => "(bad-request)"

partial def loop (h : IO.FS.Stream) : IO Unit := do
  let line ← h.getLine
  if line.isEmpty then return ()
  IO.println (answer line)
  loop h

def main : IO Unit := do loop (← IO.getStdin)
