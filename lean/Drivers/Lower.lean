import UflVerif.Model.Driver
import UflVerif.Model.Lower
import UflVerif.Gen.Compound_trace
import UflVerif.Gen.Compound_sym
import UflVerif.Gen.Compound_skew
import UflVerif.Gen.Compound_dev
import UflVerif.Gen.Compound_transposed
import UflVerif.Gen.Compound_perp
import UflVerif.Gen.Compound_cross
import UflVerif.Gen.Compound_inner
import UflVerif.Gen.Compound_outer
import UflVerif.Gen.Compound_dot
import UflVerif.Gen.Compound_det
import UflVerif.Gen.Compound_inv
import UflVerif.Gen.Compound_cofac
open UflVerif SExp Gen.Compound

/- (lower <group> <gdim> a [b])  ->  (ok <expr>) | (raises) | (unsupported) -/
def casesOf : String → Option (List Case)
  | "trace" => some traceCases | "sym" => some symCases | "skew" => some skewCases | "dev" => some devCases
  | "transposed" => some transposedCases | "perp" => some perpCases | "cross" => some crossCases
  | "inner" => some innerCases | "outer" => some outerCases | "dot" => some dotCases
  | "det" => some detCases | "inv" => some invCases | "cofac" => some cofacCases
  | _ => none

def showRes : Option Expr → String
  | some e => if Expr.isUnsupported e then "(unsupported)" else s!"(ok {e.print})"
  | none => "(raises)"

def answer (line : String) : String :=
  match SExp.read line with
  | some (.list (.atom "lower" :: .atom g :: gd :: args)) =>
    (match casesOf g, toNat? gd, Expr.ofSExpL args with
     | some cs, some gdim, some [a] => showRes (Expr.lowerInst cs a none gdim)
     | some cs, some gdim, some [a, b] =>
       if g == "inner" then showRes (Expr.lowerInner cs a b gdim) else showRes (Expr.lowerInst cs a (some b) gdim)
     | _, _, _ => "(parse-error)")
  | _ => "(bad-request)"

partial def loop (h : IO.FS.Stream) : IO Unit := do
  let line ← h.getLine
  if line.isEmpty then return ()
  IO.println (answer line)
  loop h

def main : IO Unit := do loop (← IO.getStdin)
