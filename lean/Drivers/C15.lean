import UflVerif.Model.FormExpr
open UflVerif

/- requests (one S-expression per line), one reply line each (see Model/FormExpr.lean `answerForm`):
   (group <0|1> (<itype>*) (<domain>*) (integrals <itg>*))  -> (ok <itg>*) | (raises) | (unsupported)
   (phase1 ...)                                              -> the list before the merge by common integrand
   (build (integrals <itg>*))                                -> (ok (idata d t sid extra <itg>*)*) | (raises)
   (reconstruct (integrals <itg>*)) | (sortform (integrals <itg>*))
   (canon <md>) | (mdlt <md> <md>) | (mdeq <md> <md>) -/
partial def loop (h : IO.FS.Stream) : IO Unit := do
  let line ← h.getLine
  if line.isEmpty then return ()
  IO.println (FormModel.answerForm line)
  loop h

def main : IO Unit := do loop (← IO.getStdin)
