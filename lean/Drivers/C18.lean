import UflVerif.Model.SExpr
import UflVerif.Model.Degree
open UflVerif SExp Degree

/- requests (one S-expression per line), one reply line each:
   (degree <ctx> e)          -> (ok n) | (ok None) | (raises)        estimate_total_polynomial_degree(e)
   (total <ctx> e1 .. en)    -> (ok n) | (ok None) | (raises)        ... of a form with these integrands
   (attach <ctx> e1 .. en)   -> (ok d1 .. dn) | (raises)             attach_estimated_degrees
   (frag <ctx> e)            -> (ok wf frag safe allSafe)                 membership in the theorem's domain
   (compdeg <elem> k)        -> (ok n) | (none)                      true degree bound of physical component k
   (elemok <elem>)           -> (ok 0|1)
   ctx  ::= (ctx <default> <variant> (<key> <class> <shape> <elem|-> <coordDeg> <cwc> <quad>)*)
   elem ::= (E <deg|N> <refSize> <physSize> <L | C | (S subPhys m*)> <elem>*) -/

def optNat? : SExp → Option (Option Nat)
  | .atom "N" => some none
  | s => (toNat? s).map some

def layoutOf : SExp → Option Layout
  | .atom "L" => some .leaf
  | .atom "C" => some .concat
  | .list (.atom "S" :: sp :: m) => do pure (.sym (← toNat? sp) (← m.mapM toNat?))
  | _ => none

mutual
def elemOf : SExp → Option Elem
  | .list (.atom "E" :: d :: r :: p :: l :: subs) => do
      pure (.mk (← optNat? d) (← toNat? r) (← toNat? p) (← layoutOf l) (← elemOfL subs))
  | _ => none
def elemOfL : List SExp → Option (List Elem)
  | [] => some []
  | x :: xs => do pure ((← elemOf x) :: (← elemOfL xs))
end

def boolOf : SExp → Option Bool
  | .atom "1" => some true
  | .atom "0" => some false
  | _ => none

def infoOf : SExp → Option (String × TermInfo)
  | .list [.atom key, .atom cls, sh, el, cd, cwc, quad] => do
      let e ← (match el with
        | .atom "-" => some none
        | s => (elemOf s).map some)
      pure (SExp.decode key, { cls := cls, shape := (← natList? sh), elem := e, coordDeg := (← toNat? cd), cwc := (← boolOf cwc), quad := (← boolOf quad) })
  | _ => none

def ctxOf : SExp → Option Ctx
  | .list (.atom "ctx" :: d :: .atom v :: infos) => do
      pure { default := (← toNat? d), variant := Variant.ofName v, info := (← infos.mapM infoOf) }
  | _ => none

def showDeg : Option Deg → String
  | some (some n) => s!"(ok {n})"
  | some none => "(ok None)"
  | none => "(raises)"

def b01 (b : Bool) : String := if b then "1" else "0"

def answer (line : String) : String :=
  match SExp.read line with
  | some (.list [.atom "degree", c, e]) =>
    (match ctxOf c, Expr.ofSExp e with
     | some ctx, some x => showDeg (estimateTotal ctx [x])
     | _, _ => "(parse-error)")
  | some (.list (.atom "total" :: c :: es)) =>
    (match ctxOf c, Expr.ofSExpL es with
     | some ctx, some xs => showDeg (estimateTotal ctx xs)
     | _, _ => "(parse-error)")
  | some (.list (.atom "attach" :: c :: es)) =>
    (match ctxOf c, Expr.ofSExpL es with
     | some ctx, some xs =>
       (match attachDegrees ctx xs with
        | some ds => "(ok " ++ " ".intercalate (ds.map fun d => match d with | some n => toString n | none => "None") ++ ")"
        | none => "(raises)")
     | _, _ => "(parse-error)")
  | some (.list [.atom "frag", c, e]) =>
    (match ctxOf c, Expr.ofSExp e with
     | some ctx, some x => s!"(ok {b01 (Expr.WF x)} {b01 (Frag ctx noCond x)} {b01 (Frag ctx (layoutSafe ctx) x)} {b01 (allIndexed (layoutSafe ctx) x)})"
     | _, _ => "(parse-error)")
  | some (.list [.atom "compdeg", el, k]) =>
    (match elemOf el, toNat? k with
     | some e, some n => (match compDeg e n with | some t => s!"(ok {t})" | none => "(none)")
     | _, _ => "(parse-error)")
  | some (.list [.atom "elemok", el]) =>
    (match elemOf el with
     | some e => s!"(ok {b01 (elemOK e)})"
     | none => "(parse-error)")
  | _ => "(bad-request)"

partial def loop (h : IO.FS.Stream) : IO Unit := do
  let line ← h.getLine
  if line.isEmpty then return ()
  IO.println (answer line)
  loop h

def main : IO Unit := do loop (← IO.getStdin)
