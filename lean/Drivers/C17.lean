import UflVerif.Model.Driver
import UflVerif.Model.Restrictions
open UflVerif SExp Restr

/- requests (one S-expression per line), one reply line each:
   (restrict <mode> <e> <dr> (<info>*))   ->  (ok <expr>) | (raises) | (unsupported)
       mode  = impl | plain            reconstruction through the constructors / plain
       dr    = none | ((<mesh> <side>)*)       side = + | - | 0
       info  = (<key> <dom|-1> <h1> <cdeg> <ch1> <gdim> <tdim> <fresh>)
   (rule <ClassName>)                      ->  (ok <rule>)            the regenerated table as the model reads it -/

def sideOf : SExp → Option Side
  | .atom "+" => some .plus
  | .atom "-" => some .minus
  | .atom "0" => some .none
  | _ => none

def boolOf : SExp → Option Bool
  | .atom "1" => some true
  | .atom "0" => some false
  | _ => none

def drOf : SExp → Option (Option (List (Nat × Side)))
  | .atom "none" => some none
  | .list ps => (ps.mapM fun (p : SExp) => match p with
      | SExp.list [m, s] => do pure ((← toNat? m), (← sideOf s))
      | _ => none).map some
  | _ => none

def infoOf : SExp → Option (String × TInfo)
  | .list [.atom key, dom, h1, cdeg, ch1, gdim, tdim, fresh] => do
    let d ← toInt? dom
    pure (SExp.decode key, { dom := if d < 0 then none else some d.toNat, h1 := (← boolOf h1), cdeg := (← toNat? cdeg),
                             ch1 := (← boolOf ch1), gdim := (← toNat? gdim), tdim := (← toNat? tdim), fresh := (← toNat? fresh) })
  | _ => none

def infoFn (tbl : List (String × TInfo)) (key : String) : TInfo :=
  match tbl.find? (fun p => p.1 == key) with
  | some p => p.2
  | none => {}

def showRes : Option Expr → String
  | some e => if Expr.isUnsupported e then "(unsupported)" else s!"(ok {e.print})"
  | none => "(raises)"

def ruleStr : Rule → String
  | .ignore => "_ignore_restriction" | .require => "_require_restriction" | .default => "_default_restricted"
  | .opposite => "_opposite" | .missing => "_missing_rule" | .coefficient => "coefficient" | .facetNormal => "facet_normal"
  | .referenceValue => "reference_value" | .variable => "variable" | .restricted => "restricted"
  | .reuse => "reuse_if_untouched" | .cellOperator => "_require_restriction_of_cell_operator" | .unknown => "unknown"

def answer (line : String) : String :=
  match SExp.read line with
  | some (.list [.atom "restrict", .atom mode, e, dr, .list infos]) =>
    (match Expr.ofSExp e, drOf dr, infos.mapM infoOf with
     | some x, some d, some tbl =>
       let cfg : Cfg := { rule := genRule, dr := d, info := infoFn tbl }
       if mode == "plain" then showRes (propagate cfg x) else showRes (applyRestrictions cfg x)
     | _, _, _ => "(parse-error)")
  | some (.list [.atom "rule", .atom cls]) => s!"(ok {ruleStr (genRule cls)})"
  | _ => "(bad-request)"

partial def loop (h : IO.FS.Stream) : IO Unit := do
  let line ← h.getLine
  if line.isEmpty then return ()
  IO.println (answer line)
  loop h

def main : IO Unit := do loop (← IO.getStdin)
