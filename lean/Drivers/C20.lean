import UflVerif.Model.Dispatch
open UflVerif.Dispatch
/- line protocol:
   alg <name> <handler>*        declare algorithm class (before any history)
   type <name> <mro>*           declare a pre-existing type
   begin                        start a history (state: declared types, empty cache)
   reg <name> <mro>* | inst <alg> | apply <alg> <type> | real ...     one output line each -/
structure D where
  algs : Array Alg := #[]
  algNames : Array String := #[]
  baseTypes : Array (String × Mro) := #[]
  typeNames : Array String := #[]
  st : St := { types := [], cache := [] }

partial def loop (h : IO.FS.Stream) (d : D) : IO Unit := do
  let line ← h.getLine
  if line.isEmpty then return ()
  let ws := (line.trimAscii.toString.splitOn " ").filter (· ≠ "")
  match ws with
  | "alg" :: n :: hs => loop h { d with algs := d.algs.push { name := n, defined := hs }, algNames := d.algNames.push n }
  | "type" :: n :: mro => loop h { d with baseTypes := d.baseTypes.push (n, mro) }
  | ["begin"] =>
    loop h { d with typeNames := d.baseTypes.map (·.1), st := { types := d.baseTypes.toList.map (·.2), cache := [] } }
  | "reg" :: n :: mro =>
    let (s, o) := step d.algs.toList d.st (.reg mro)
    IO.println o.str
    loop h { d with st := s, typeNames := d.typeNames.push n }
  | ["inst", a] =>
    match d.algNames.idxOf? a with
    | some i => let (s, o) := step d.algs.toList d.st (.inst i); IO.println o.str; loop h { d with st := s }
    | none => IO.println "badop"; loop h d
  | ["apply", a, t] =>
    match d.algNames.idxOf? a, d.typeNames.idxOf? t with
    | some i, some j => let (s, o) := step d.algs.toList d.st (.apply i j); IO.println o.str; loop h { d with st := s }
    | _, _ => IO.println "badop"; loop h d
  | "real" :: _ => IO.println "ok"; loop h d
  | "mapfn" :: _ => IO.println "ok"; loop h d
  | _ => IO.println "badop"; loop h d

def main : IO Unit := do loop (← IO.getStdin) {}
