import UflVerif.Model.Driver
import UflVerif.Model.Order
import UflVerif.Model.Construct
import UflVerif.Model.Replace
open UflVerif SExp

/- requests (one S-expression per line), one reply line each:
   (props e)                       -> (ok <shape> <fi>)
   (evalI e (c..) env)             -> (ok n/d f) | (okf f) | (none)     UFL's evaluate protocol
   (eval e (c..) env ((i v)..))    -> (ok n/d f) | (okf f)              denotational semantics -/
/-- floats travel as their IEEE-754 bit pattern -/
def fbits (f : Float) : String := toString f.toBits

def idxEnvOf (s : SExp) : IdxEnv :=
  match s with
  | .list ps => ps.foldl (fun ι p => match p with
      | .list [a, b] => match toNat? a, toNat? b with
        | some c, some v => ι.set c v
        | _, _ => ι
      | _ => ι) (fun _ => 0)
  | _ => fun _ => 0

def showRes : Option Expr → String
  | some e => if Expr.isUnsupported e then "(unsupported)" else s!"(ok {e.print})"
  | none => "(raises)"

def idxList : Expr → Option (List Idx)
  | .mi is => some is
  | _ => none

/-- `(mk <Class> operand*)`: the class constructor of the model -/
def mk (name : String) (args : List Expr) : String :=
  match name, args with
  | "Sum", [a, b] => showRes (Expr.mkSum a b)
  | "Product", [a, b] => showRes (Expr.mkProduct a b)
  | "Division", [a, b] => showRes (Expr.mkDivision a b)
  | "Power", [a, b] => showRes (Expr.mkPower a b)
  | "Abs", [a] => showRes (Expr.mkAbs a)
  | "Conj", [a] => showRes (Expr.mkConj a)
  | "Real", [a] => showRes (Expr.mkReal a)
  | "Imag", [a] => showRes (Expr.mkImag a)
  | "Indexed", [a, .mi is] => showRes (Expr.mkIndexed a is)
  | "IndexSum", [a, .mi [.free j]] => showRes (Expr.mkIndexSum a j)
  | "IndexSum", [_, .mi _] => "(raises)"
  | "ComponentTensor", [a, .mi is] => showRes (Expr.mkComponentTensor a is)
  | "ListTensor", xs => showRes (Expr.mkListTensor xs)
  | "Conditional", [c, t, f] => showRes (Expr.mkConditional c t f)
  | "NotCondition", [a] => showRes (Expr.mkNot a)
  | "MinValue", [a, b] => showRes (Expr.mkMinMax .minValue a b)
  | "MaxValue", [a, b] => showRes (Expr.mkMinMax .maxValue a b)
  | n, [a, b] =>
    (match Op.ofName n with
     | .other _ => "(bad-request)"
     | k => showRes (Expr.mkCondition k a b))
  | _, _ => "(bad-request)"

def answer (line : String) : String :=
  match SExp.read line with
  | some (.list [.atom "props", e]) =>
    (match Expr.ofSExp e with
     | some x => s!"(ok {showNats x.shape} {showFI x.fi})"
     | none => "(parse-error)")
  | some (.list [.atom "evalI", e, c, env]) =>
    (match Expr.ofSExp e, natList? c, RawEnv.ofSExp env with
     | some x, some comp, some r =>
       let fl := Expr.evalI r.float [] x comp []
       if x.usesFloatOnly then
         (match fl with | some f => s!"(okf {fbits f})" | none => "(none)")
       else
         (match Expr.evalI r.rat [] x comp [], fl with
          | some q, some f => s!"(ok {showRat q} {fbits f})"
          | _, _ => "(none)")
     | _, _, _ => "(parse-error)")
  | some (.list [.atom "eval", e, c, env, idx]) =>
    (match Expr.ofSExp e, natList? c, RawEnv.ofSExp env with
     | some x, some comp, some r =>
       let f := Expr.eval r.float .none (idxEnvOf idx) x comp
       if x.usesFloatOnly then s!"(okf {fbits f})"
       else s!"(ok {showRat (Expr.eval r.rat .none (idxEnvOf idx) x comp)} {fbits f})"
     | _, _, _ => "(parse-error)")
  | some (.list (.atom "mk" :: .atom name :: args)) =>
    (match Expr.ofSExpL args with
     | some xs => mk name xs
     | none => "(parse-error)")
  | some (.list (.atom "replace" :: e :: pairs)) =>
    (match Expr.ofSExp e, pairs.mapM (fun p => match p with
        | .list [.atom key, img] => (Expr.ofSExp img).map (fun i => (SExp.decode key, i))
        | _ => none) with
     | some x, some m => showRes (Expr.replaceE m x)
     | _, _ => "(parse-error)")
  | some (.list [.atom "cmp", a, b]) =>
    (match Expr.ofSExp a, Expr.ofSExp b with
     | some x, some y => s!"(ok {Expr.ordStr (Expr.cmp x y)})"
     | _, _ => "(parse-error)")
  | _ => "(bad-request)"

partial def loop (h : IO.FS.Stream) : IO Unit := do
  let line ← h.getLine
  if line.isEmpty then return ()
  IO.println (answer line)
  loop h

def main : IO Unit := do loop (← IO.getStdin)
