import UflVerif.Model.Driver
import UflVerif.Model.CancelJacobian
open UflVerif SExp

/- (jc e) | (ie e) | (rc e) | (cancel e)            the passes as they are in /repo
   (jcG e) | (ieG e) | (rcG e) | (cancelG e)        with the four proposed guards; suffix P / S / W / D = one guard only
   ->  (ok <expr>) | (raises) | (unsupported) -/
def showRes : Option Expr → String
  | some e => if Expr.isUnsupported e then "(unsupported)" else s!"(ok {e.print})"
  | none => "(raises)"

def guardsOf (sfx : String) : Option Expr.Guards :=
  match sfx with
  | "" => some .current
  | "G" => some .repaired
  | "P" => some ⟨true, false, false, false⟩
  | "S" => some ⟨false, true, false, false⟩
  | "W" => some ⟨false, false, true, false⟩
  | "D" => some ⟨false, false, false, true⟩
  | _ => none

def passOf (name : String) : Option (Expr → Option Expr) :=
  let try1 (base : String) (f : Expr.Guards → Expr → Option Expr) : Option (Expr → Option Expr) :=
    if name.startsWith base then (guardsOf (name.drop base.length).toString).map f else none
  (try1 "jc" Expr.jcWith).orElse fun _ => (try1 "ie" Expr.ieWith).orElse fun _ =>
  (try1 "rc" Expr.rcWith).orElse fun _ => try1 "cancel" Expr.cancelWith

def answer (line : String) : String :=
  match SExp.read line with
  | some (.list [.atom name, e]) =>
    (match passOf name, Expr.ofSExp e with
     | some f, some x => showRes (f x)
     | none, _ => "(bad-request)"
     | _, none => "(parse-error)")
  | _ => "(bad-request)"

partial def loop (h : IO.FS.Stream) : IO Unit := do
  let line ← h.getLine
  if line.isEmpty then return ()
  IO.println (answer line)
  loop h

def main : IO Unit := do loop (← IO.getStdin)
