import UflVerif.Model.SExpr
import UflVerif.Model.ExprEq
open UflVerif UflVerif.C13

/- C13 correspondence driver.  One S-expression request per line, one reply per line.

   (pool (objs O*) (hist (i j)*))
        O = (l tag memo01 TERM)                       a terminal object; TERM in the wire format of Model/SExpr.lean; named
                                                      constructor fields travel in the `(K (S name) (N v)* ...)` suffix
          | (n tag otag memo01 Name (aux*) O*)        an operator object
        a filled `_hash` slot (memo01 = 1) gets the hash of the node's structure
     -> (r (o s)* ) (m (e h r x)*)
        per step of the history: o = outcome of `pool[i] == pool[j]` (MObj.eqTop, table observers `stdObs`) in the state the
        earlier steps left, s = 1 iff both are operators whose operand tuples are one object afterwards;
        for every ordered pair (i, j) of the initial pool, row-major: e = structural `==` (eqE), h = equal hashes (hashE),
        r = identical reprs (reprE), x = derived data agree (auxAgree)
   (sees cls field)   -> (eq hash repr)   what the regenerated table says                                                  -/

def b01 (b : Bool) : String := if b then "1" else "0"

mutual
partial def objOf : SExp → Option MObj
  | .list [.atom "l", tag, memo, t] => do
    let e ← Expr.ofSExp t
    let m ← SExp.toNat? memo
    pure (.leaf (← SExp.toNat? tag) e (if m == 1 then some (stdObs.thash e) else none))
  | .list (.atom "n" :: tag :: otag :: memo :: .atom name :: aux :: kids) => do
    let ks ← kids.mapM objOf
    let m ← SExp.toNat? memo
    let k := Op.ofName name
    pure (.node (← SExp.toNat? tag) k (← SExp.natList? aux) (← SExp.toNat? otag) ks
            (if m == 1 then some (stdObs.mix k.name (hashL stdObs (MObj.eraseL ks))) else none))
  | _ => none
end

def pairNat : SExp → Option (Nat × Nat)
  | .list [a, b] => do pure (← SExp.toNat? a, ← SExp.toNat? b)
  | _ => none

def sharedAfter (a b : MObj) : Bool := a.otag?.isSome && a.otag? == b.otag?

/-- the history on a list-held pool: `stepL` of Model/ExprEq.lean (= the function-valued `step` of the theorems: `stepL_spec`;
    a function-valued pool would recompute the whole history at every lookup) -/
def runHist (p : List MObj) : List (Nat × Nat) → List String → List String
  | [], acc => acc.reverse
  | ij :: h, acc =>
    let r := MObj.eqTop stdObs (p.getD ij.1 default) (p.getD ij.2 default)
    let p' := stepL stdObs p ij
    runHist p' h (s!"({b01 r.1} {b01 (sharedAfter (p'.getD ij.1 default) (p'.getD ij.2 default))})" :: acc)

def handle (line : String) : String :=
  match SExp.read line with
  | some (.list [.atom "pool", .list (.atom "objs" :: os), .list (.atom "hist" :: hs)]) =>
    match os.mapM objOf, hs.mapM pairNat with
    | some objs, some hist =>
      let steps := runHist objs hist []
      let es := objs.map MObj.erase
      let rows := es.flatMap fun a => es.map fun b =>
        s!"({b01 (eqE stdObs a b)} {b01 (hashE stdObs a == hashE stdObs b)} {b01 (reprE stdObs a == reprE stdObs b)} {b01 (auxAgree a b)})"
      "(r " ++ " ".intercalate steps ++ ") (m " ++ " ".intercalate rows ++ ")"
    | _, _ => "(error parse-objects)"
  | some (.list [.atom "sees", .atom cls, .atom fld]) =>
    s!"({b01 (sees (·.eqSees) cls fld)} {b01 (sees (·.hashSees) cls fld)} {b01 (sees (·.reprSees) cls fld)})"
  | _ => "(error parse)"

partial def loop (h : IO.FS.Stream) : IO Unit := do
  let line ← h.getLine
  if line.isEmpty then return
  let l := line.trimRight
  if l.isEmpty then loop h else
  IO.println (handle l)
  (← IO.getStdout).flush
  loop h

def main : IO Unit := do loop (← IO.getStdin)
