import Std.Data.HashMap
import UflVerif.Model.SExpr
import UflVerif.Model.Writes
open UflVerif UflVerif.Writes

/- C27 correspondence driver.  One S-expression request per line, one reply per line.

   The driver keeps a *heap* (node tag ↦ node, form tag ↦ form) only as bookkeeping: every request unfolds the objects
   it concerns into the heap-free values of `Model/Writes.lean`, applies the model function, and folds the result back
   (a node that occurs at several places of a DAG gets the same write at every occurrence).

   (world (nodes N*) (forms F*))      reset the heap                                        -> (ok)
        N = (n tag tc (payload*) otag memo01 (kid-tag*))
        F = (f tag (filled-slot-index*) I*)      I = (i tag integrand-tag (pre*) (post*) ((k v)*))
   (hash t)                            hash(e_t)                                             -> (w W*)
   (eq a b)                            e_a == e_b  (expr_equals)                             -> (r 0|1 (w W*))
   (facc F slot)                       accessor of a Form slot                               -> (v 0|1 (w W*))
   (fequals F G)                       F.equals(G)                                           -> (r 0|1 (w W*))
   (alg (nodes N*) (log W*))           an opaque algorithm: the writes the implementation performed on existing
                                       objects, each validated as a model write kind (guard included) and applied
                                                                                             -> (ok) | (bad k reason)
   (check (nodes N*) (forms F*))       compare the heap with the implementation's state      -> (same) | (diff ..)
   (slots)                             the memo slots of the model                           -> ((cls attr)*)
   (md attach ((id addr deg)*) STORE)  attach_estimated_degrees                              -> (((id addr)*) STORE)
   (md scale ((id addr newid deg)*) STORE)  apply_integral_scaling                           -> (((id addr)*) STORE)
   (md mcall own meta|- deg|- rule|- STORE) Measure.__call__                                 -> (addr STORE)
        STORE = (((k v)*)*)
   W = (h tag) | (z tag) | (s tag otag (kid-tag*)) | (m formtag slot)     (z = _hash slot emptied by a re-run Expr.__init__)                                                       -/

structure HNode where
  tc : Nat
  payload : List Int
  otag : Nat
  kids : List Nat
  memo : Bool
  deriving BEq, Inhabited

structure HIntegral where
  tag : Nat
  integrand : Nat
  pre : List Int
  post : List Int
  md : List (Int × Int)
  deriving BEq, Inhabited

structure HForm where
  filled : List Nat
  integrals : List HIntegral
  deriving BEq, Inhabited

structure Heap where
  nodes : Std.HashMap Nat HNode := {}
  forms : Std.HashMap Nat HForm := {}
  deriving Inhabited

inductive W
  | hw (t : Nat)
  | zw (t : Nat)
  | sw (t ot : Nat) (kids : List Nat)
  | mw (f slot : Nat)
  deriving BEq, Inhabited

def W.key : W → Nat
  | .hw t => t * 64
  | .sw t _ _ => t * 64 + 1
  | .mw f k => f * 64 + 2 + k
  | .zw t => t * 64 + 63

def W.str : W → String
  | .hw t => s!"(h {t})"
  | .zw t => s!"(z {t})"
  | .sw t ot ks => s!"(s {t} {ot} ({" ".intercalate (ks.map toString)}))"
  | .mw f k => s!"(m {f} {k})"

def showWs (ws : List W) : String :=
  let sorted := (ws.eraseDups.toArray.qsort (fun a b => a.key < b.key)).toList
  "(w" ++ String.join (sorted.map fun w => " " ++ w.str) ++ ")"

/-- unfold a node of the heap into a value; filled `_hash` slots get the hash of the structure (so the invariant
    `memoOK` holds of everything the driver hands to the model) -/
partial def unfold (h : Heap) (t : Nat) : Obj :=
  match h.nodes[t]? with
  | none => .node t 0 [] 0 [] none
  | some n =>
    let ops := n.kids.map (unfold h)
    let m := if n.memo then some (stdH n.tc n.payload (Tree.specL stdH (Obj.structL ops))) else none
    .node t n.tc n.payload n.otag ops m

mutual
partial def foldBack (h : Heap) : Obj → Heap
  | .node t tc p ot ops m =>
    let h1 := foldBackL h ops
    { h1 with nodes := h1.nodes.insert t { tc := tc, payload := p, otag := ot, kids := ops.map Obj.tag, memo := m.isSome } }
partial def foldBackL (h : Heap) : List Obj → Heap
  | [] => h
  | o :: os => foldBackL (foldBack h o) os
end

/-- the writes that turn the old heap into the new one, restricted to the nodes of `o` -/
partial def diffObj (old : Heap) (acc : List W) : Obj → List W
  | .node t _ _ ot ops m =>
    let acc := ops.foldl (diffObj old) acc
    match old.nodes[t]? with
    | none => acc
    | some n =>
      let acc := if !n.memo && m.isSome && !(acc.contains (.hw t)) then .hw t :: acc else acc
      if n.otag != ot && !(acc.any fun w => w.key == t * 64 + 1) then .sw t ot (ops.map Obj.tag) :: acc else acc

def slotOf (i : Nat) : FField := FField.all.getD i .arguments
def slotIdx (f : FField) : Nat := (FField.all.idxOf? f).getD 0

def formOf (h : Heap) (t : Nat) : FormObj :=
  match h.forms[t]? with
  | none => { tag := t, integrals := [], memo := fun _ => none }
  | some f =>
    let ints : List IntegralObj := f.integrals.map fun i =>
      { tag := i.tag, integrand := unfold h i.integrand, pre := i.pre, post := i.post, md := i.md }
    let s : FormT := ints.map IntegralObj.struct
    { tag := t, integrals := ints,
      memo := fun g => if f.filled.contains (slotIdx g) then some (stdPure.spec s g) else none }

def foldForm (h : Heap) (F : FormObj) : Heap :=
  let h1 := F.integrals.foldl (fun h i => foldBack h i.integrand) h
  let hf : HForm := {
    filled := (FField.all.filter fun g => (F.memo g).isSome).map slotIdx,
    integrals := F.integrals.map fun i => { tag := i.tag, integrand := i.integrand.tag, pre := i.pre, post := i.post, md := i.md } }
  { h1 with forms := h1.forms.insert F.tag hf }

def diffForm (old : Heap) (acc : List W) (F : FormObj) : List W :=
  let acc := F.integrals.foldl (fun acc i => diffObj old acc i.integrand) acc
  match old.forms[F.tag]? with
  | none => acc
  | some f =>
    FField.all.foldl (fun acc g =>
      if (F.memo g).isSome && !(f.filled.contains (slotIdx g)) then .mw F.tag (slotIdx g) :: acc else acc) acc

/- ---- parsing -/
open SExp

def ints? : SExp → Option (List Int)
  | .list xs => xs.mapM toInt?
  | _ => none

def nats? : SExp → Option (List Nat)
  | .list xs => xs.mapM toNat?
  | _ => none

def pairs? : SExp → Option (List (Int × Int))
  | .list xs => xs.mapM fun
    | .list [a, b] => do pure ((← toInt? a), (← toInt? b))
    | _ => none
  | _ => none

def node? : SExp → Option (Nat × HNode)
  | .list [.atom "n", t, tc, p, ot, m, ks] => do
    pure ((← toNat? t), { tc := ← toNat? tc, payload := ← ints? p, otag := ← toNat? ot, memo := (← toNat? m) != 0, kids := ← nats? ks })
  | _ => none

def integral? : SExp → Option HIntegral
  | .list [.atom "i", t, e, pre, post, md] => do
    pure { tag := ← toNat? t, integrand := ← toNat? e, pre := ← ints? pre, post := ← ints? post, md := ← pairs? md }
  | _ => none

def form? : SExp → Option (Nat × HForm)
  | .list (.atom "f" :: t :: filled :: is) => do
    pure ((← toNat? t), { filled := ← nats? filled, integrals := ← is.mapM integral? })
  | _ => none

def addNodes (h : Heap) (xs : List SExp) : Option Heap :=
  xs.foldlM (fun h x => do let (t, n) ← node? x; pure { h with nodes := h.nodes.insert t n }) h

def addForms (h : Heap) (xs : List SExp) : Option Heap :=
  xs.foldlM (fun h x => do let (t, f) ← form? x; pure { h with forms := h.forms.insert t f }) h

def w? : SExp → Option W
  | .list [.atom "h", t] => do pure (.hw (← toNat? t))
  | .list [.atom "z", t] => do pure (.zw (← toNat? t))
  | .list [.atom "s", t, ot, ks] => do pure (.sw (← toNat? t) (← toNat? ot) (← nats? ks))
  | .list [.atom "m", f, k] => do pure (.mw (← toNat? f) (← toNat? k))
  | _ => none

/-- validate one logged write as an instance of a model write kind and apply it -/
def applyW (h : Heap) : W → Except String Heap
  | .hw t =>
    match h.nodes[t]? with
    | none => .error s!"memoHash: unknown node {t}"
    | some n =>
      if n.memo then .error s!"memoHash: slot of node {t} was already filled (write outside the `is None` guard)"
      else
        let o := Obj.memoWrite stdH (unfold h t)
        .ok (foldBack h o)
  | .zw t =>
    match h.nodes[t]? with
    | none => .error s!"memoReset: unknown node {t}"
    | some _ => .ok (foldBack h (Obj.resetWrite (unfold h t)))
  | .sw t ot ks =>
    match h.nodes[t]? with
    | none => .error s!"operandShare: unknown node {t}"
    | some n =>
      let a := unfold h t
      let b : Obj := .node 0 n.tc n.payload ot (ks.map (unfold h)) none
      if !(Obj.equalsTest stdH a b) then .error s!"operandShare: new operand tuple of node {t} is not equal to the old one"
      else .ok (foldBack h (Obj.shareWrite stdH b a))
  | .mw f k =>
    match h.forms[f]? with
    | none => .error s!"memoForm: unknown form {f}"
    | some hf =>
      if hf.filled.contains k then .error s!"memoForm: slot {k} of form {f} was already filled"
      else .ok (foldForm h (FormObj.memoWrite stdPure (slotOf k) (formOf h f)))

def showStore (σ : Store) : String :=
  "(" ++ " ".intercalate (σ.map fun d => "(" ++ " ".intercalate (d.map fun kv => s!"({kv.1} {kv.2})") ++ ")") ++ ")"

def store? : SExp → Option Store
  | .list ds => ds.mapM pairs?
  | _ => none

def optNat? : SExp → Option (Option Nat)
  | .atom "-" => some none
  | x => (toNat? x).map some

def optInt? : SExp → Option (Option Int)
  | .atom "-" => some none
  | x => (toInt? x).map some

def sameNode (a b : HNode) : Bool := a == b

def answer (h : Heap) (line : String) : Heap × String :=
  match SExp.read line with
  | some (.list [.atom "world", .list (.atom "nodes" :: ns), .list (.atom "forms" :: fs)]) =>
    match (addNodes {} ns).bind (addForms · fs) with
    | some h' => (h', "(ok)")
    | none => (h, "(parse-error)")
  | some (.list [.atom "hash", t]) =>
    match toNat? t with
    | some t =>
      let o := Obj.fill stdH (unfold h t)
      (foldBack h o, showWs (diffObj h [] o))
    | none => (h, "(parse-error)")
  | some (.list [.atom "eq", a, b]) =>
    match toNat? a, toNat? b with
    | some a, some b =>
      -- phase 1 (the hash requests) is folded back on its own: after a successful comparison the nodes below a's old
      -- operand tuple are no longer part of a, but they keep the hash written to them
      let (fa, fb) := Obj.eqFill stdH (unfold h a) (unfold h b)
      let ws1 := diffObj h (diffObj h [] fb) fa
      let h1 := foldBack (foldBack h fb) fa
      let (r, oa, ob) := Obj.eqOp stdH (unfold h1 a) (unfold h1 b)
      let ws := diffObj h1 (diffObj h1 ws1 ob) oa
      -- `a` last: a successful comparison replaces a's operand tuple, and a may be a sub-object of b or conversely
      (foldBack (foldBack h1 ob) oa, s!"(r {if r then 1 else 0} {showWs ws})")
    | _, _ => (h, "(parse-error)")
  | some (.list [.atom "facc", f, s]) =>
    match toNat? f, toNat? s with
    | some f, some s =>
      let (v, F') := FormObj.acc stdPure (slotOf s) (formOf h f)
      (foldForm h F', s!"(v {if v.isSome then 1 else 0} {showWs (diffForm h [] F')})")
    | _, _ => (h, "(parse-error)")
  | some (.list [.atom "fequals", f, g]) =>
    match toNat? f, toNat? g with
    | some f, some g =>
      let (F1, G1) := FormObj.equalsHash stdPure (formOf h f) (formOf h g)
      let ws1 := diffForm h (diffForm h [] G1) F1
      let h1 := foldForm (foldForm h G1) F1
      let (r, F', G') := FormObj.equals stdPure (formOf h1 f) (formOf h1 g)
      let ws := diffForm h1 (diffForm h1 ws1 G') F'
      (foldForm (foldForm h1 G') F', s!"(r {if r then 1 else 0} {showWs ws})")
    | _, _ => (h, "(parse-error)")
  | some (.list [.atom "alg", .list (.atom "nodes" :: ns), .list (.atom "log" :: ws)]) =>
    match addNodes h ns, ws.mapM w? with
    | some h1, some ws =>
      let rec go (h : Heap) (k : Nat) : List W → Heap × String
        | [] => (h, "(ok)")
        | w :: rest =>
          match applyW h w with
          | .ok h' => go h' (k + 1) rest
          | .error e => (h, s!"(bad {k} {SExp.encode e})")
      go h1 0 ws
    | _, _ => (h, "(parse-error)")
  | some (.list [.atom "check", .list (.atom "nodes" :: ns), .list (.atom "forms" :: fs)]) =>
    match (addNodes {} ns).bind (addForms · fs) with
    | some impl =>
      let bad := impl.nodes.toList.filter fun (t, n) => match h.nodes[t]? with
        | some m => !(sameNode m n)
        | none => true
      let badF := impl.forms.toList.filter fun (t, f) => match h.forms[t]? with
        | some g => !(f == g)
        | none => true
      if bad.isEmpty && badF.isEmpty then (h, "(same)")
      else
        let showN (t : Nat) (n : HNode) := s!"(n {t} {n.tc} {n.otag} {if n.memo then 1 else 0} ({" ".intercalate (n.kids.map toString)}))"
        let d := bad.take 3 |>.map fun (t, n) => s!"(impl {showN t n} model {match h.nodes[t]? with | some m => showN t m | none => "-"})"
        let df := badF.take 3 |>.map fun (t, f) => s!"(form {t} impl-filled ({" ".intercalate (f.filled.map toString)}) model-filled ({match h.forms[t]? with | some g => " ".intercalate (g.filled.map toString) | none => "-"}))"
        (h, "(diff " ++ " ".intercalate (d ++ df) ++ ")")
    | none => (h, "(parse-error)")
  | some (.list [.atom "slots"]) =>
    (h, "(" ++ " ".intercalate (memoSlots.map fun p => s!"({p.1} {p.2})") ++ ")")
  | some (.list [.atom "md", .atom "attach", .list is, st]) =>
    let rows := is.mapM fun
      | .list [i, a, d] => do pure ((← toInt? i), (← toNat? a), (← toInt? d))
      | _ => none
    match rows, store? st with
    | some rows, some σ =>
      let deg := fun (x : Int) => ((rows.find? (·.1 == x)).map (·.2.2)).getD 0
      let (out, σ') := attachDegrees deg (rows.map fun r => { integrand := r.1, md := r.2.1 }) σ
      (h, "((" ++ " ".intercalate (out.map fun i => s!"({i.integrand} {i.md})") ++ ") " ++ showStore σ' ++ ")")
    | _, _ => (h, "(parse-error)")
  | some (.list [.atom "md", .atom "scale", .list is, st]) =>
    let rows := is.mapM fun
      | .list [i, a, j, d] => do pure ((← toInt? i), (← toNat? a), (← toInt? j), (← toInt? d))
      | _ => none
    match rows, store? st with
    | some rows, some σ =>
      let sc := fun (x : Int) => ((rows.find? (·.1 == x)).map (fun r => (r.2.2.1, r.2.2.2))).getD (0, 0)
      let (out, σ') := scaleIntegrals sc (rows.map fun r => { integrand := r.1, md := r.2.1 }) σ
      (h, "((" ++ " ".intercalate (out.map fun i => s!"({i.integrand} {i.md})") ++ ") " ++ showStore σ' ++ ")")
    | _, _ => (h, "(parse-error)")
  | some (.list [.atom "md", .atom "mcall", own, mdArg, deg, rule, st]) =>
    match toNat? own, optNat? mdArg, optInt? deg, optInt? rule, store? st with
    | some own, some mdArg, some deg, some rule, some σ =>
      let (a, σ') := measureCall own mdArg deg rule σ
      (h, s!"({a} {showStore σ'})")
    | _, _, _, _, _ => (h, "(parse-error)")
  | _ => (h, "(bad-request)")

partial def loop (inp : IO.FS.Stream) (h : Heap) : IO Unit := do
  let line ← inp.getLine
  if line.isEmpty then return ()
  let (h', out) := answer h line
  IO.println out
  loop inp h'

def main : IO Unit := do loop (← IO.getStdin) {}
