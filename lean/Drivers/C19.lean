import UflVerif.Model.Traversal
open UflVerif.Trav
/- line protocol (one reply line per request):
   post <tree> | pre <tree> | cutpost <labels,> <tree> | map <labels,> <tree> | dag <modes,> <tree>
   labels: comma separated cut-off labels ("-" for none). -/
def labels (s : String) : List Nat := if s == "-" then [] else (s.splitOn ",").filterMap String.toNat?

def showList (ts : List Tree) : String := " ".intercalate (ts.map Tree.str)

/-- handler used for `map`: a string recording the node label and the operand results it was given -/
def hMap (t : Tree) (rs : List (Option String)) : String :=
  "<" ++ toString t.label ++ String.join (rs.map (fun r => match r with | some x => " " ++ x | none => " ?")) ++ ">"

def ctxStr (c : Ctx) : String :=
  let find (k : String) := match c.find? (·.1 == k) with | some p => toString p.2 | none => "-"
  "scale=" ++ find "scale" ++ ",shift=" ++ find "shift"

def modeCtx (m : Nat) (ctx : Ctx) : Ctx :=
  match m with
  | 0 => ctx
  | 1 => [("scale", 2)]
  | 2 => [("shift", 2)]
  | 3 => []
  | 4 => [("scale", 2), ("shift", 1)]
  | _ => [("shift", 1), ("scale", 2)]

def rules (modes : List Nat) : Rules String where
  ctxFor := fun t ctx i => modeCtx (modes.getD ((t.label % 4) * 2 + i % 2) 0) ctx
  combine := fun t ctx rs => "<" ++ toString t.label ++ "|" ++ ctxStr ctx ++ String.join (rs.map (" " ++ ·)) ++ ">"

def answer (line : String) : String :=
  match (line.trimAscii.toString.splitOn " ").filter (· ≠ "") with
  | "post" :: rest => match readTree (" ".intercalate rest) with
    | some t => showList (uniquePost t) | none => "parse-error"
  | "pre" :: rest => match readTree (" ".intercalate rest) with
    | some t => showList (uniquePre t) | none => "parse-error"
  | "cutpost" :: ls :: rest => match readTree (" ".intercalate rest) with
    | some t => showList (cutoffUniquePost (fun x => (labels ls).contains x.label) t) | none => "parse-error"
  | "map" :: ls :: rest => match readTree (" ".intercalate rest) with
    | some t =>
      let cutl := labels ls
      match mapDag (fun x => cutl.contains x.label) (!cutl.isEmpty) hMap t with
      | some r => r | none => "no-result"
    | none => "parse-error"
  | "dag" :: ms :: rest => match readTree (" ".intercalate rest) with
    | some t => (dagCall (rules (labels ms)) t [] []).1
    | none => "parse-error"
  | _ => "bad-request"

partial def loop (h : IO.FS.Stream) : IO Unit := do
  let line ← h.getLine
  if line.isEmpty then return ()
  IO.println (answer line)
  loop h

def main : IO Unit := do loop (← IO.getStdin)
