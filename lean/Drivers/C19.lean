import UflVerif.Model.TraversalShared
open UflVerif.Trav
/- line protocol (one reply line per request):
   post <tree> | pre <tree> | cutpost <labels,> <tree> | map <labels,> <tree> | dag <modes,> <tree>
   labels: comma separated cut-off labels ("-" for none).
   shared state (trees separated by "|", groups by "||"):
   postv <labels> <rev 0/1> <tree> | <visited tree> | ...      -> yields # final visited set
   prev <tree> | <visited tree> | ...                          -> yields
   seq <labels> <rev 0/1> <tree> | <tree> | ...                -> yields | yields | ... # final visited set
   maps <labels> <compress 0/1> <handler 0/1> <trees> || <trees>
        two map_expr_dags calls sharing vcache/rcache          -> results || results # |vcache| |rcache|
   dagk <compress 0/1> <spec> <kwmode1> <kwmode2> <tree> | <tree>
        one DAGTraverser, two root calls                       -> result | result # |visited cache| |result cache|
        spec: "-" or lab:i.m,i.m;lab:...  (the self(operand i, **mode m) calls of the rule for that label;
        labels not listed use @postorder) -/
def labels (s : String) : List Nat := if s == "-" then [] else (s.splitOn ",").filterMap String.toNat?

def showList (ts : List Tree) : String := " ".intercalate (ts.map Tree.str)

/-- handler used for `map`: a string recording the node label and the operand results it was given -/
def hMap (t : Tree) (rs : List (Option String)) : String :=
  "<" ++ toString t.label ++ String.join (rs.map (fun r => match r with | some x => " " ++ x | none => " ?")) ++ ">"

def ctxStr (c : Ctx) : String :=
  let find (k : String) := match c.find? (·.1 == k) with | some p => toString p.2 | none => "-"
  "scale=" ++ find "scale" ++ ",shift=" ++ find "shift"

def modeCtx (m : Nat) (ctx : Ctx) : Ctx :=
  match m with
  | 0 => ctx
  | 1 => [("scale", 2)]
  | 2 => [("shift", 2)]
  | 3 => []
  | 4 => [("scale", 2), ("shift", 1)]
  | _ => [("shift", 1), ("scale", 2)]

def rules (modes : List Nat) : Rules String where
  ctxFor := fun t ctx i => modeCtx (modes.getD ((t.label % 4) * 2 + i % 2) 0) ctx
  combine := fun t ctx rs => "<" ++ toString t.label ++ "|" ++ ctxStr ctx ++ String.join (rs.map (" " ++ ·)) ++ ">"

def splitBar (s : String) : List String := ((s.splitOn "|").map (·.trimAscii.toString)).filter (· ≠ "")
def readTrees (s : String) : Option (List Tree) := (splitBar s).mapM readTree
def cutOf (ls : String) : Tree → Bool := let cl := labels ls; fun x => cl.contains x.label

/-- a handler that is not injective on trees (labels mod 2), so that the result cache has hits -/
def hMap2 (t : Tree) (rs : List (Option String)) : String :=
  "<" ++ toString (t.label % 2) ++ String.join (rs.map (fun r => match r with | some x => " " ++ x | none => " ?")) ++ ">"

def showRes (rs : List (Option String)) : String :=
  " | ".intercalate (rs.map (fun r => match r with | some x => x | none => "no-result"))

def combineK : Tree → Ctx → List String → String :=
  fun t ctx rs => "<" ++ toString t.label ++ "|" ++ ctxStr ctx ++ String.join (rs.map (" " ++ ·)) ++ ">"

def parseSpec (s : String) : List (Nat × List (Nat × Nat)) :=
  if s == "-" then [] else (s.splitOn ";").filterMap fun e =>
    match e.splitOn ":" with
    | [l, cs] =>
      match l.toNat? with
      | some lab => some (lab, (cs.splitOn ",").filterMap fun c =>
          match c.splitOn "." with
          | [i, m] => match i.toNat?, m.toNat? with
            | some i, some m => some (i, m)
            | _, _ => none
          | _ => none)
      | none => none
    | _ => none

def handlerOf (spec : List (Nat × List (Nat × Nat))) : Handler String where
  calls := fun t ctx => match spec.find? (·.1 == t.label) with
    | some (_, cs) => cs.map (fun p => (p.1, modeCtx p.2 ctx))
    | none => (postorder combineK).calls t ctx
  combine := combineK

def answerShared (line : String) : Option String :=
  match (line.trimAscii.toString.splitOn " ").filter (· ≠ "") with
  | "postv" :: ls :: rv :: rest => some <| match readTrees (" ".intercalate rest) with
    | some (t :: vis) => let r := trav (cutOf ls) (rv == "1") t vis; showList r.1 ++ " # " ++ showList r.2
    | _ => "parse-error"
  | "prev" :: rest => some <| match readTrees (" ".intercalate rest) with
    | some (t :: vis) => showList (preV t vis)
    | _ => "parse-error"
  | "seq" :: ls :: rv :: rest => some <| match readTrees (" ".intercalate rest) with
    | some ts => let r := travSeq (cutOf ls) (rv == "1") ts []
                 " | ".intercalate (r.1.map showList) ++ " # " ++ showList r.2
    | none => "parse-error"
  | "maps" :: ls :: comp :: hk :: rest => some <|
    match ((" ".intercalate rest).splitOn "||").mapM readTrees with
    | some [g1, g2] =>
      let anyCut := !(labels ls).isEmpty
      let h := if hk == "1" then hMap2 else hMap
      let r1 := mapDags (cutOf ls) anyCut h (comp == "1") g1 [] []
      let r2 := mapDags (cutOf ls) anyCut h (comp == "1") g2 r1.2.1 r1.2.2
      showRes r1.1 ++ " || " ++ showRes r2.1 ++ " # " ++ toString r2.2.1.length ++ " " ++ toString r2.2.2.length
    | _ => "parse-error"
  | "dagk" :: comp :: sp :: m1 :: m2 :: rest => some <|
    match readTrees (" ".intercalate rest) with
    | some [t1, t2] =>
      let H := handlerOf (parseSpec sp)
      let r1 := dagCall2 H (comp == "1") id t1 (modeCtx (m1.toNat?.getD 3) []) ([], [])
      let r2 := dagCall2 H (comp == "1") id t2 (modeCtx (m2.toNat?.getD 3) []) r1.2
      r1.1 ++ " | " ++ r2.1 ++ " # " ++ toString r2.2.1.length ++ " " ++ toString r2.2.2.length
    | _ => "parse-error"
  | _ => none

def answer (line : String) : String :=
  match answerShared line with
  | some r => r
  | none =>
  match (line.trimAscii.toString.splitOn " ").filter (· ≠ "") with
  | "post" :: rest => match readTree (" ".intercalate rest) with
    | some t => showList (uniquePost t) | none => "parse-error"
  | "pre" :: rest => match readTree (" ".intercalate rest) with
    | some t => showList (uniquePre t) | none => "parse-error"
  | "cutpost" :: ls :: rest => match readTree (" ".intercalate rest) with
    | some t => showList (cutoffUniquePost (fun x => (labels ls).contains x.label) t) | none => "parse-error"
  | "map" :: ls :: rest => match readTree (" ".intercalate rest) with
    | some t =>
      let cutl := labels ls
      match mapDag (fun x => cutl.contains x.label) (!cutl.isEmpty) hMap t with
      | some r => r | none => "no-result"
    | none => "parse-error"
  | "dag" :: ms :: rest => match readTree (" ".intercalate rest) with
    | some t => (dagCall (rules (labels ms)) t [] []).1
    | none => "parse-error"
  | _ => "bad-request"

partial def loop (h : IO.FS.Stream) : IO Unit := do
  let line ← h.getLine
  if line.isEmpty then return ()
  IO.println (answer line)
  loop h

def main : IO Unit := do loop (← IO.getStdin)
