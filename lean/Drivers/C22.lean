import UflVerif.Model.Driver
import UflVerif.Model.FormSplit
import UflVerif.Model.Linear
import UflVerif.Sem.SplitValue
open UflVerif SExp Expr

/- requests (one S-expression per line), one reply line each:
   (split  X R ix iy subs cc e)                     -> (ok <expr>) | (raises) | (unsupported)     FormSplitter on one integrand, real constructors
   (splitP X R ix iy subs cc e)                     -> same with the plain constructor layer (the function the theorems speak about)
   (blocks XB X R i j arity subs cc ((key e)*))        -> (ok <blocks>) | (raises) | (unsupported)   extract_blocks
   (hyp X R ix iy subs cc e)                      -> (ok wf scalar adm lin0 lin1 admG)          do the hypotheses of the C22 theorems hold of this integrand?
   (eval e (c..) env ((i v)..))                   -> (ok n/d f) | (okf f)                       denotational semantics, side-aware valuation
   X, XB ::= 0 | 1 (model variant: code as it stands | with fix_C22_2.diff / fix_C22_1.diff applied);  R ::= 0 | 1;  ix, iy, i, j, arity ::= - | <nat>;  subs ::= ((argkey (subkey (shape))*)*);  cc ::= (key*)
   blocks ::= (F (key e)*) | N | (T blocks*) -/
def fbits (f : Float) : String := toString f.toBits

def idxEnvOf (s : SExp) : IdxEnv :=
  match s with
  | .list ps => ps.foldl (fun ι p => match p with
      | .list [a, b] => match toNat? a, toNat? b with
        | some c, some v => ι.set c v
        | _, _ => ι
      | _ => ι) (fun _ => 0)
  | _ => fun _ => 0

def showRes : Option Expr → String
  | some e => if Expr.isUnsupported e then "(unsupported)" else s!"(ok {e.print})"
  | none => "(raises)"

def optNat? : SExp → Option (Option Nat)
  | .atom "-" => some none
  | .atom s => s.toNat?.map some
  | _ => none

def subsOf : SExp → Option (List (String × List SubArg))
  | .list items => items.mapM (fun it => match it with
      | .list (.atom k :: subs) => do
          let ss ← subs.mapM (fun s => match s with
            | .list [.atom sk, sh] => do pure ({ key := SExp.decode sk, shape := (← natList? sh) } : SubArg)
            | _ => none)
          pure (SExp.decode k, ss)
      | _ => none)
  | _ => none

def keysOf : SExp → Option (List String)
  | .list items => items.mapM (fun it => match it with | .atom k => some (SExp.decode k) | _ => none)
  | _ => none

def formOf : SExp → Option Form
  | .list items => items.mapM (fun it => match it with
      | .list [.atom k, e] => do pure ({ key := k, integrand := (← Expr.ofSExp e) } : Integral)
      | _ => none)
  | _ => none

def showForm (F : Form) : String :=
  "(F" ++ String.join (F.map fun I => s!" ({I.key} {I.integrand.print})") ++ ")"

mutual
def blocksUnsupported : Blocks → Bool
  | .form f => f.isUnsupported
  | .none => false
  | .tup xs => blocksUnsupportedL xs
def blocksUnsupportedL : List Blocks → Bool
  | [] => false
  | b :: bs => blocksUnsupported b || blocksUnsupportedL bs
end

mutual
def showBlocks : Blocks → String
  | .form f => showForm f
  | .none => "N"
  | .tup xs => "(T" ++ showBlocksL xs ++ ")"
def showBlocksL : List Blocks → String
  | [] => ""
  | b :: bs => " " ++ showBlocks b ++ showBlocksL bs
end

def sideTag : Side → String
  | .none => "" | .plus => "+|" | .minus => "-|"

def ratS (r : RawEnv) : Env Rat :=
  { r.rat with term := fun s key c => r.rat.term .none (sideTag s ++ key) c,
               jet := fun s key c ds => r.rat.jet .none (sideTag s ++ key) c ds }
def floatS (r : RawEnv) : Env Float :=
  { r.float with term := fun s key c => r.float.term .none (sideTag s ++ key) c,
                 jet := fun s key c ds => r.float.jet .none (sideTag s ++ key) c ds }

def isOne : SExp → Bool
  | .atom "1" => true
  | _ => false

def cfgOf (repl ix iy subs cc : SExp) : Option SplitCfg := do
  let r ← toNat? repl
  pure { replaceArg := r != 0, idx := [← optNat? ix, ← optNat? iy], subs := (← subsOf subs), cellConst := (← keysOf cc) }

def answer (line : String) : String :=
  match SExp.read line with
  | some (.list [.atom "split", fx, repl, ix, iy, subs, cc, e]) =>
    (match cfgOf repl ix iy subs cc, Expr.ofSExp e with
     | some cfg, some x => showRes (fsG (isOne fx) (guardU (rebuild22 cfg.cellConst)) cfg x)
     | _, _ => "(parse-error)")
  | some (.list [.atom "splitP", fx, repl, ix, iy, subs, cc, e]) =>
    (match cfgOf repl ix iy subs cc, Expr.ofSExp e with
     | some cfg, some x => showRes (fsG (isOne fx) plainRb cfg x)
     | _, _ => "(parse-error)")
  | some (.list [.atom "blocks", fxB, fx, repl, i, j, arity, subs, cc, form]) =>
    (match cfgOf repl i j subs cc, optNat? i, optNat? j, optNat? arity, formOf form with
     | some cfg, some i', some j', some ar, some F =>
       (match extractBlocks (isOne fxB) (isOne fx) (guardU (rebuild22 cfg.cellConst)) cfg F i' j' ar with
        | none => "(raises)"
        | some b => if blocksUnsupported b then "(unsupported)" else s!"(ok {showBlocks b})")
     | _, _, _, _, _ => "(parse-error)")
  | some (.list [.atom "hyp", fx, repl, ix, iy, subs, cc, e]) =>
    (match cfgOf repl ix iy subs cc, Expr.ofSExp e with
     | some cfg, some x =>
       let A := dedupKeysFS (argTerms x)
       let P (n : Int) : KeyP := fun key => match argOf A key with | some d => d.count == n | none => false
       let b (v : Bool) : String := if v then "1" else "0"
       s!"(ok {b (WF x)} {b (shape x).isEmpty} {b (Adm none (isOne fx) cfg A x)} {b (LinIn (P 0) x)} {b (LinIn (P 1) x || FreeOf (P 1) x)} {b (Adm (some 0) (isOne fx) cfg A x)})"
     | _, _ => "(parse-error)")
  | some (.list [.atom "eval", e, c, env, idx]) =>
    (match Expr.ofSExp e, natList? c, RawEnv.ofSExp env with
     | some x, some comp, some r =>
       let f := Expr.eval (floatS r) .none (idxEnvOf idx) x comp
       if x.usesFloatOnly then s!"(okf {fbits f})"
       else s!"(ok {showRat (Expr.eval (ratS r) .none (idxEnvOf idx) x comp)} {fbits f})"
     | _, _, _ => "(parse-error)")
  | _ => "(bad-request)"

partial def loop (h : IO.FS.Stream) : IO Unit := do
  let line ← h.getLine
  if line.isEmpty then return ()
  IO.println (answer line)
  loop h

def main : IO Unit := do loop (← IO.getStdin)
