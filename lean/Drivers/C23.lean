import UflVerif.Model.Driver
import UflVerif.Model.ComplexMode
open UflVerif SExp

/- requests (one S-expression per line), one reply line each:
   (check e)    -> (ok <e'> <type>) | (raises) | (unsupported)     model of map_expr_dag(CheckComparisons(), e)
   (checkfixed e) -> the same for the proposed repair (ln/acos/asin/Bessel typed complex)
   (wrap e)     -> the same pass without constructor simplifications
   (remove e)   -> (ok <e'>) | (raises) | (unsupported)            model of map_expr_dag(ComplexNodeRemoval(), e)
   (strip e)    -> the same pass without constructor simplifications
   (realcls)    -> (ok <class name>*)                              terminal classes typed real
   (handlers C) -> (ok <check handler> <check handler, repaired typing> <removal handler>) for operator class C -/

def showCheck : Option (Expr × Expr.Ty) → String
  | some (e, t) => if Expr.isUnsupported e then "(unsupported)" else s!"(ok {e.print} {t.str})"
  | none => "(raises)"

def showRem : Option Expr → String
  | some e => if Expr.isUnsupported e then "(unsupported)" else s!"(ok {e.print})"
  | none => "(raises)"

def answer (line : String) : String :=
  match SExp.read line with
  | some (.list [.atom "check", e]) =>
    (match Expr.ofSExp e with | some x => showCheck (Expr.checkE x) | none => "(parse-error)")
  | some (.list [.atom "checkfixed", e]) =>
    (match Expr.ofSExp e with | some x => showCheck (Expr.checkFixedE x) | none => "(parse-error)")
  | some (.list [.atom "wrap", e]) =>
    (match Expr.ofSExp e with | some x => showCheck (Expr.wrapE x) | none => "(parse-error)")
  | some (.list [.atom "remove", e]) =>
    (match Expr.ofSExp e with | some x => showRem (Expr.removeE x) | none => "(parse-error)")
  | some (.list [.atom "strip", e]) =>
    (match Expr.ofSExp e with | some x => showRem (Expr.stripE x) | none => "(parse-error)")
  | some (.list [.atom "realcls"]) => "(ok " ++ " ".intercalate Expr.realClasses ++ ")"
  | some (.list [.atom "handlers", .atom name]) =>
    -- the handler bodies the model uses for the operator type `name`: current typing, repaired typing, node removal
    let k := Op.ofName name
    s!"(ok {(Expr.checkHandlerG false k).name} {(Expr.checkHandlerG true k).name} {(Expr.removeHandler k).name})"
  | _ => "(bad-request)"

partial def loop (h : IO.FS.Stream) : IO Unit := do
  let line ← h.getLine
  if line.isEmpty then return ()
  IO.println (answer line)
  loop h

def main : IO Unit := do loop (← IO.getStdin)
