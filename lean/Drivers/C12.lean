import UflVerif.Model.SExpr
import UflVerif.Model.Renaming
import UflVerif.Model.SigWire
open UflVerif SExp UflVerif.SigWire

/- C12 driver.  One S-expression request per line, one reply per line.

   cexpr ::= (I v) | (R n d) | (C a b c d) | (Z (sh) ((c d)..)) | (M idx..) | (O Name (aux) cexpr..)
           | (TC count space (shape)) | (TA number part space (shape)) | (TK count mesh (shape))
           | (TG Cls mesh (shape)) | (TL count) | (TP Cls key (shape))
   mesh  ::= (m id gdim tdim celem)        space ::= (fs mesh elem [label])  (celem, elem, key, label percent-encoded)
   form  ::= (form (itg itype mesh sub ((k v)..) cexpr)..)     sub ::= (si v) | (ss s) | (st v..)
   ren   ::= (ren (idx (a b)..) (coeff (a b)..) (const (a b)..) (label (a b)..) (mesh (a b)..))   identity elsewhere
   nu    ::= (nu (idx c0 c1 ..) (coeff ..) (const ..) (label ..) (mesh ..))      k-th object of a class gets count ck

   (toexpr cexpr expr)            -> (ok same) | (ok differs <toExpr cexpr>)      rendering of reprs vs the serializer
   (cmp a b)                      -> (ok <cmpR> <cmpN>)
   (sig zfix form)                -> (ok <sigdata>) | (raises)
   (reneq ren a b)                -> (ok true|false)        rename ren a == b
   (renform ren form form)        -> (ok true|false)
   (run R|N nu (prog instr..))    -> (ok cexpr..) | (none)  the expression registers after the history
-/

def answer (line : String) : String :=
  match SExp.read line with
  | some (.list [.atom "toexpr", c, e]) =>
    (match cexprOf c, Expr.ofSExp e with
     | some x, some y => if eqRendered x.toExpr y then "(ok same)" else s!"(ok differs {x.toExpr.print})"
     | _, _ => "(parse-error)")
  | some (.list [.atom "cmp", a, b]) =>
    (match cexprOf a, cexprOf b with
     | some x, some y => s!"(ok {Expr.ordStr (CExpr.cmpR x y)} {Expr.ordStr (CExpr.cmpN x y)})"
     | _, _ => "(parse-error)")
  | some (.list [.atom "sig", .atom z, f]) =>
    (match formOf f with
     | some g => (match Sig.formData (z == "1") g with
        | some d => s!"(ok {(sigS (.hash d)).str})"
        | none => "(raises)")
     | none => "(parse-error)")
  | some (.list [.atom "reneq", r, a, b]) =>
    (match renOf r, cexprOf a, cexprOf b with
     | some σ, some x, some y => s!"(ok {CExpr.beq (x.rename σ) y})"
     | _, _, _ => "(parse-error)")
  | some (.list [.atom "renform", r, a, b]) =>
    (match renOf r, formOf a, formOf b with
     | some σ, some x, some y => s!"(ok {formBeq (x.rename σ) y})"
     | _, _, _ => "(parse-error)")
  | some (.list [.atom "run", .atom v, nu, p]) =>
    (match nuOf nu, progOf p with
     | some ν, some prog =>
       (match BState.run (if v == "N" then CExpr.cmpN else CExpr.cmpR) ν prog {} with
        | some st => "(ok" ++ String.join (st.exprs.map fun e => " " ++ (cexprS e).str) ++ ")"
        | none => "(none)")
     | _, _ => "(parse-error)")
  | _ => "(bad-request)"

partial def loop (h : IO.FS.Stream) : IO Unit := do
  let line ← h.getLine
  if line.isEmpty then return ()
  IO.println (answer line)
  loop h

def main : IO Unit := do loop (← IO.getStdin)
