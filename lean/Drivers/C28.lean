import UflVerif.Model.SExpr
import UflVerif.Model.BaseForm
open UflVerif SExp BaseForm

/- C28 driver.  One S-expression request per line, one reply per line.

space ::= (S id 0|1)            arg ::= (A space number part|-)         coef ::= (C count space)
atom  ::= (AT id (arg*) (coef*))
itg   ::= (I w key atom) | (Z key)                                      w ::= p/q | p
bf    ::= (Form itg*) | (Cofunction count space) | (Coargument arg) | (Matrix count space space) | (Zero arg*)
        | (FormSum (bf*) (w*)) | (Action bf bf) | (Adjoint bf) | (Coefficient count space) | (Argument arg)
        | (Sum bf bf) | (EZero) | (Other id)
desc  ::= (leaf bf) | (formSum (desc*) (w*)) | (action d d) | (adjoint d) | (add d d) | (sub d d) | (neg d) | (smul w d)
env   ::= ((dim (id n)*) (coef (count v*)*) (mat (count (row*)*)*) (atom (id (idx.. v)*)*) )

(build (<guardAction> <renum> <leftCoef> <guardAdjoint> <guardFormSum>) desc)     -> (ok bf <args> <coefs> <sig> <wt>) | (err kind)
        <args> ::= (args arg*) | (argserr kind)      <coefs> ::= (coefs coef*) | (coefserr kind)    <sig> ::= (sig space*)
(denote desc|bf-as-(leaf bf) env (idx*)) -> (ok p/q)       value of the *raw* description
(mapz (<flags>) bf (atomid*) (count*) (matrixcount*)) -> map_integrands with the function that zeroes the listed atoms / cofunctions+coefficients / matrices
-/

def showRat (q : Rat) : String := if q.den = 1 then s!"{q.num}" else s!"{q.num}/{q.den}"

def ratOfS : SExp → Option Rat
  | .atom s =>
    match s.splitOn "/" with
    | [a] => a.toInt?.map (fun (n : Int) => (n : Rat))
    | [a, b] => do
        let n ← a.toInt?
        let d ← b.toNat?
        pure ((n : Rat) / (d : Rat))
    | _ => none
  | _ => none

def spaceOf : SExp → Option Space
  | .list [.atom "S", i, .atom d] => do pure ⟨← toNat? i, d == "1"⟩
  | _ => none

def argOf : SExp → Option Arg
  | .list [.atom "A", s, n, p] => do
      let sp ← spaceOf s
      let num ← toNat? n
      let part ← (match p with | .atom "-" => some none | x => (toNat? x).map some)
      pure ⟨sp, num, part⟩
  | _ => none

def coefOf : SExp → Option Coef
  | .list [.atom "C", c, s] => do pure ⟨← toNat? c, ← spaceOf s⟩
  | _ => none

def atomOf : SExp → Option Atom
  | .list [.atom "AT", i, .list as, .list cs] => do
      pure ⟨← toNat? i, ← as.mapM argOf, ← cs.mapM coefOf⟩
  | _ => none

def itgOf : SExp → Option (Itg Rat)
  | .list [.atom "I", w, k, a] => do pure ⟨← ratOfS w, false, ← toNat? k, ← atomOf a⟩
  | .list [.atom "Z", k] => do pure ⟨0, true, ← toNat? k, ⟨0, [], []⟩⟩
  | _ => none

partial def bfOf : SExp → Option (BF Rat)
  | .list (.atom "Form" :: is) => do pure (.form (← is.mapM itgOf))
  | .list [.atom "Cofunction", c, s] => do pure (.cofunction (← toNat? c) (← spaceOf s))
  | .list [.atom "Coargument", a] => do pure (.coargument (← argOf a))
  | .list [.atom "Matrix", c, r, k] => do pure (.matrix (← toNat? c) (← spaceOf r) (← spaceOf k))
  | .list (.atom "Zero" :: as) => do pure (.zero (← as.mapM argOf))
  | .list [.atom "FormSum", .list cs, .list ws] => do pure (.formSum (← cs.mapM bfOf) (← ws.mapM ratOfS))
  | .list [.atom "Action", l, r] => do pure (.action (← bfOf l) (← bfOf r))
  | .list [.atom "Adjoint", f] => do pure (.adjoint (← bfOf f))
  | .list [.atom "Coefficient", c, s] => do pure (.coefficient (← toNat? c) (← spaceOf s))
  | .list [.atom "Argument", a] => do pure (.argument (← argOf a))
  | .list [.atom "Sum", a, b] => do pure (.exprSum (← bfOf a) (← bfOf b))
  | .list [.atom "EZero"] => some .exprZero
  | .list [.atom "Other", i] => do pure (.exprOther (← toNat? i))
  | _ => none

partial def descOf : SExp → Option (Desc Rat)
  | .list [.atom "leaf", b] => do pure (.leaf (← bfOf b))
  | .list [.atom "formSum", .list cs, .list ws] => do pure (.formSum (← cs.mapM descOf) (← ws.mapM ratOfS))
  | .list [.atom "action", l, r] => do pure (.action (← descOf l) (← descOf r))
  | .list [.atom "adjoint", f] => do pure (.adjoint (← descOf f))
  | .list [.atom "add", a, b] => do pure (.add (← descOf a) (← descOf b))
  | .list [.atom "sub", a, b] => do pure (.sub (← descOf a) (← descOf b))
  | .list [.atom "neg", a] => do pure (.neg (← descOf a))
  | .list [.atom "smul", w, a] => do pure (.smul (← ratOfS w) (← descOf a))
  | _ => none

def showSpace (s : Space) : String := s!"(S {s.id} {if s.dual then 1 else 0})"
def showArg (a : Arg) : String :=
  s!"(A {showSpace a.space} {a.number} {match a.part with | some p => toString p | none => "-"})"
def showCoef (c : Coef) : String := s!"(C {c.count} {showSpace c.space})"
def showItg (i : Itg Rat) : String :=
  if i.zeroed then s!"(Z {i.key})" else s!"(I {showRat i.w} {i.key} {i.atom.id})"
def joinS (xs : List String) : String := " ".intercalate xs

partial def showBF : BF Rat → String
  | .form is => "(Form" ++ String.join (is.map fun i => " " ++ showItg i) ++ ")"
  | .cofunction c s => s!"(Cofunction {c} {showSpace s})"
  | .coargument a => s!"(Coargument {showArg a})"
  | .matrix c r k => s!"(Matrix {c} {showSpace r} {showSpace k})"
  | .zero as => "(Zero" ++ String.join (as.map fun a => " " ++ showArg a) ++ ")"
  | .formSum cs ws => s!"(FormSum ({joinS (cs.map showBF)}) ({joinS (ws.map showRat)}))"
  | .action l r => s!"(Action {showBF l} {showBF r})"
  | .adjoint f => s!"(Adjoint {showBF f})"
  | .coefficient c s => s!"(Coefficient {c} {showSpace s})"
  | .argument a => s!"(Argument {showArg a})"
  | .exprSum a b => s!"(Sum {showBF a} {showBF b})"
  | .exprZero => "(EZero)"
  | .exprOther i => s!"(Other {i})"

def flag : SExp → Option Bool
  | .atom "0" => some false
  | .atom "1" => some true
  | _ => none

/-- (guardAction renum leftCoef guardAdjoint guardFormSum) -/
def cfgOf : List SExp → Option Cfg
  | [g, r, lc, ga, gs] => do pure ⟨← flag g, ← flag r, ← flag lc, ← flag ga, ← flag gs⟩
  | _ => none

def report (cfg : Cfg) (b : BF Rat) : String :=
  let a := match b.arguments cfg with
    | .ok as => s!"(args {joinS (as.map showArg)})"
    | .error e => s!"(argserr {e.str})"
  let c := match b.coefficients cfg with
    | .ok cs => s!"(coefs {joinS (cs.map showCoef)})"
    | .error e => s!"(coefserr {e.str})"
  s!"(ok {showBF b} {a} {c} (sig {joinS (b.sigS.map showSpace)}) {if b.WT then 1 else 0})"

/-! environment -/

structure Tables where
  dims : List (Nat × Nat)
  coefs : List (Nat × List Rat)
  mats : List (Nat × List (List Rat))
  atoms : List (Nat × List (List Nat × Rat))

def lookup {α : Type} (l : List (Nat × α)) (k : Nat) : Option α := (l.find? (fun p => p.1 == k)).map (·.2)

def Tables.env (t : Tables) : Env Rat where
  dim := fun i => (lookup t.dims i).getD 0
  coefVal := fun c i => ((lookup t.coefs c).getD []).getD i 0
  matVal := fun c i j => (((lookup t.mats c).getD []).getD i []).getD j 0
  atomFn := fun a _ idx => match (lookup t.atoms a).getD [] |>.find? (fun p => p.1 == idx) with
    | some p => p.2
    | none => 0
  star := id

def pairNat : SExp → Option (Nat × Nat)
  | .list [a, b] => do pure (← toNat? a, ← toNat? b)
  | _ => none

def tablesOf : SExp → Option Tables
  | .list [.list (.atom "dim" :: ds), .list (.atom "coef" :: cs), .list (.atom "mat" :: ms), .list (.atom "atom" :: ats)] => do
      let dims ← ds.mapM pairNat
      let coefs ← cs.mapM (fun x => match x with
        | .list (c :: vs) => do pure (← toNat? c, ← vs.mapM ratOfS)
        | _ => none)
      let mats ← ms.mapM (fun x => match x with
        | .list (c :: rows) => do
            let rs ← rows.mapM (fun r => match r with | .list vs => vs.mapM ratOfS | _ => none)
            pure (← toNat? c, rs)
        | _ => none)
      let atoms ← ats.mapM (fun x => match x with
        | .list (a :: es) => do
            let ents ← es.mapM (fun e => match e with
              | .list [.list ix, v] => do pure (← ix.mapM toNat?, ← ratOfS v)
              | _ => none)
            pure (← toNat? a, ents)
        | _ => none)
      pure ⟨dims, coefs, mats, atoms⟩
  | _ => none

def answer (line : String) : String :=
  match SExp.read line with
  | some (.list [.atom "build", .list fl, d]) =>
    (match cfgOf fl, descOf d with
     | some cfg, some d =>
       (match d.build cfg id with
        | .ok b => report cfg b
        | .error e => s!"(err {e.str})")
     | _, _ => "(parse-error)")
  | some (.list [.atom "mapz", .list fl, b, .list ats, .list cs, .list ms]) =>
    (match cfgOf fl, bfOf b, ats.mapM toNat?, cs.mapM toNat?, ms.mapM toNat? with
     | some cfg, some b, some ats, some cs, some ms =>
       (match mapIntegrands cfg id (zeroItg ats) (zeroLeaf cs ms) b with
        | .ok b' => report cfg b'
        | .error e => s!"(err {e.str})")
     | _, _, _, _, _ => "(parse-error)")
  | some (.list [.atom "denote", d, env, .list ix]) =>
    (match descOf d, tablesOf env, ix.mapM toNat? with
     | some d, some t, some idx => s!"(ok {showRat (denote t.env d.raw idx)})"
     | _, _, _ => "(parse-error)")
  | some (.list [.atom "typing", d]) =>
    (match descOf d with
     | some d => s!"(ok (sig {joinS (d.raw.sigS.map showSpace)}) {if d.raw.WT then 1 else 0})"
     | none => "(parse-error)")
  | _ => "(bad-request)"

partial def loop (h : IO.FS.Stream) : IO Unit := do
  let line ← h.getLine
  if line.isEmpty then return ()
  IO.println (answer line)
  loop h

def main : IO Unit := do loop (← IO.getStdin)
