import UflVerif.Model.Driver
import UflVerif.Gen.Pipeline
import UflVerif.Model.Pipeline
import UflVerif.Model.Scaling
import UflVerif.Model.Reciprocal
open UflVerif SExp

/- requests (one S-expression per line), one reply line each:
   (pipeline <atom-position>*)        the valuation that makes exactly these atoms (positions in Gen.Pipeline.atoms) true
        -> (ok (<pass>*) ((<feature>*)*))   passes in order and the stage (kinds that may be present) after each pass
         | (raises)                          the option combination raises
         | (stuck (<pass>*) <k>)             the stage precondition of pass k is not established
   (relevant)                          -> (ok <atom-position>*)     the atoms that guard a pass
   (scale <itype> <tdim> <geomdeg> <curdeg|none> <detJ> <weight> <detFJ> <detEJ> <integrand>)
        -> (ok <expr> <deg>) | (raises) | (unsupported)            deg ::= (s n) | (t n*)
   (recip <a> <b>)                     -> (ok <expr>) | (raises) | (unsupported)    ReciprocalCanceller's Product rule -/

open UflVerif.Pipeline in
def answerPipeline (trues : List Nat) : String :=
  let v : Nat → Bool := fun i => trues.contains i
  match pipelineOf Gen.Pipeline.rows v with
  | none => "(raises)"
  | some ps =>
    let names := " ".intercalate (ps.map PassId.name)
    let stages := stagesAlong initialStage ps
    if stages.any Option.isNone then s!"(stuck ({names}) {stages.length})"
    else
      let strs := stages.filterMap fun s => s.map fun st => "(" ++ " ".intercalate (st.toList.map Feat.name) ++ ")"
      s!"(ok ({names}) ({" ".intercalate strs}))"

open UflVerif.Scaling in
def degOf : SExp → Option Deg
  | .list [.atom "s", n] => (toNat? n).map .scalar
  | .list (.atom "t" :: ns) => (ns.mapM toNat?).map .tuple
  | _ => none

open UflVerif.Scaling in
def showDeg : Deg → String
  | .scalar d => s!"(s {d})"
  | .tuple ds => "(t" ++ String.join (ds.map fun d => s!" {d}") ++ ")"

open UflVerif.Scaling in
def answerScale (itype : String) (tdim : Nat) (gd : Deg) (cur : Option Deg) (G : Syms) (e : Expr) : String :=
  let k := kindOf Gen.Pipeline.customIntegralTypes Gen.Pipeline.pointIntegralTypes itype
  match applyScaling G k tdim gd cur e with
  | none => "(raises)"
  | some (r, d) => if Expr.isUnsupported r then "(unsupported)" else s!"(ok {r.print} {showDeg d})"

def showRes : Option Expr → String
  | some e => if Expr.isUnsupported e then "(unsupported)" else s!"(ok {e.print})"
  | none => "(raises)"

def answer (line : String) : String :=
  match SExp.read line with
  | some (.list (.atom "pipeline" :: ts)) =>
    (match ts.mapM toNat? with
     | some trues => answerPipeline trues
     | none => "(parse-error)")
  | some (.list [.atom "relevant"]) =>
    "(ok" ++ String.join ((UflVerif.Pipeline.relevantAtoms Gen.Pipeline.rows).map fun a => s!" {a}") ++ ")"
  | some (.list [.atom "scale", .atom itype, tdim, gd, cur, dj, w, dfj, dej, e]) =>
    (match toNat? tdim, degOf gd, Expr.ofSExp dj, Expr.ofSExp w, Expr.ofSExp dfj, Expr.ofSExp dej, Expr.ofSExp e with
     | some t, some g, some a, some b, some c, some d, some x =>
       let cur' := match cur with | .atom "none" => some none | c => (degOf c).map some
       (match cur' with
        | some cu => answerScale (SExp.decode itype) t g cu { detJ := a, weight := b, detFJ := c, detEJ := d } x
        | none => "(parse-error)")
     | _, _, _, _, _, _, _ => "(parse-error)")
  | some (.list [.atom "recip", a, b]) =>
    (match Expr.ofSExp a, Expr.ofSExp b with
     | some x, some y => showRes (UflVerif.Reciprocal.recipProduct x y)
     | _, _ => "(parse-error)")
  | _ => "(bad-request)"

partial def loop (h : IO.FS.Stream) : IO Unit := do
  let line ← h.getLine
  if line.isEmpty then return ()
  IO.println (answer line)
  loop h

def main : IO Unit := do loop (← IO.getStdin)
