-- Root of the `UflVerif` library.  Model/* is Mathlib-free; Props/* hold the property theorems.
import UflVerif.AuditCmd
import UflVerif.Props.C05
import UflVerif.Props.C06
import UflVerif.Props.C07
import UflVerif.Props.C08
import UflVerif.Props.C10
import UflVerif.Props.C10Rename
import UflVerif.Props.C13
import UflVerif.Props.C19
import UflVerif.Props.C19Dispatch
import UflVerif.Props.C20
import UflVerif.Props.C21
import UflVerif.Props.C24
import UflVerif.Props.C25
import UflVerif.Props.C26
import UflVerif.Props.C29
