#!/bin/bash
# usage: tools/retest_seeded.sh <ID-k> ...   — run ./check on a scratch worktree of /repo's HEAD with seeded/<ID-k>/patch.diff applied
# (through UFL_VERIF_REPO) and record the outcome in seeded/<ID-k>/meta.json
cd /verif
for s in "$@"; do
  pid=${s%%-*}
  out=$(tools/try_mut_wt.sh /verif/seeded/$s/patch.diff $pid quick 2>&1); rc=$?
  python3 - "$s" "$rc" <<E
import json,sys
s,rc=sys.argv[1],int(sys.argv[2]); pid=s.split('-')[0]
out='''$(echo "$out" | grep -v "^WARNING conda" | tail -n 8 | sed "s/'''/\"\"\"/g; s/\\\\/\\\\\\\\/g")'''
p='/verif/seeded/%s/meta.json'%s; m=json.load(open(p))
m['check_quick_exit']=rc; m['check_output_tail']=out.strip(); m['detected']=(rc==1 and ('VIOLATION property=%s'%pid) in out)
m.setdefault('what_i_ran',[]); m['what_i_ran']=['git apply patch.diff (scratch worktree of /repo HEAD); pytest (977 passed); demo.py with/without patch','UFL_VERIF_REPO=<scratch worktree with the patch> ./check %s'%pid]
json.dump(m,open(p,'w'),indent=1); print(s,'exit',rc,'detected' if m['detected'] else 'MISSED')
E
done
