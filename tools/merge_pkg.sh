#!/bin/bash
# usage: tools/merge_pkg.sh CNN  — take a builder package from /root/w_CNN into /verif (files only; DESIGN/MANIFEST/known_findings are merged by hand)
set -e
P=$1; W=/root/w_$P; p=$(echo $P | tr 'A-Z' 'a-z')
cd /verif
git fetch -q $W HEAD
B=$(git merge-base HEAD FETCH_HEAD)
FILES=$(git diff --name-only --diff-filter=AM $B FETCH_HEAD | grep -E '^(harness/|lean/UflVerif/(Model|Sem|Props|Gen)/|lean/Drivers/)' | grep -v '^lean/UflVerif.lean' || true)
for f in $FILES; do
  if git diff --quiet $B HEAD -- "$f" 2>/dev/null; then git checkout FETCH_HEAD -- "$f"; echo "took $f"
  else echo "CONFLICT (changed on both sides, merge by hand): $f"; fi
done
for f in $(git ls-tree --name-only FETCH_HEAD | grep -E "^fix_${P}.*\.diff$" || true); do git show FETCH_HEAD:$f > proposed_fixes/$f; echo "fix $f"; done
for f in $(git ls-tree --name-only FETCH_HEAD | grep -E "^REPORT_${P}" || true); do git show FETCH_HEAD:$f > reports/$f; done
git show FETCH_HEAD:manifest_entry_$P.py > tools/entries/$P.py 2>/dev/null && echo "entry ok"
for f in $(git ls-tree --name-only FETCH_HEAD | grep -E "^(known|pending)_findings_${P}.json$" || true); do git show FETCH_HEAD:$f > /root/kf_$P.json; echo "side findings -> /root/kf_$P.json"; done
if ! grep -q "\"${p}drv\"" lean/lakefile.toml && [ -f lean/Drivers/$P.lean ]; then
  printf '\n[[lean_exe]]\nname = "%sdrv"\nroot = "Drivers.%s"\n' $p $P >> lean/lakefile.toml
  sed -i "s/^defaultTargets = \[\(.*\)\]/defaultTargets = [\1,\"${p}drv\"]/" lean/lakefile.toml; echo "lakefile: ${p}drv"
fi
for m in $(ls lean/UflVerif/Props/ | grep -E "^${P}[A-Za-z]*\.lean$" | sed 's/\.lean$//'); do
  grep -q "^import UflVerif.Props.$m$" lean/UflVerif.lean || { sed -i "s/^import UflVerif.Props.NonVacuity$/import UflVerif.Props.$m\nimport UflVerif.Props.NonVacuity/" lean/UflVerif.lean; echo "root import $m"; }
done
