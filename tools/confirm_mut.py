#!/usr/bin/env python3
"""Confirm a sub-agent's seeded change in its scratch worktree and, if confirmed, keep it under /verif/seeded/.
usage: confirm_mut.py <PID> [k ...]      (worktree /tmp/wt_<PID>, mutations under _mut/<k>/)
Confirms: patch applies on the clean worktree; the unedited suite passes with it (977); the demo fails with it and
passes without it.  Then runs ./check <PID> on /repo with the patch applied (and undoes it) and records the outcome."""
import json, subprocess, sys, os, shutil, re
pid = sys.argv[1]
wt = "/tmp/wt_%s" % pid
ks = sys.argv[2:] or sorted(os.listdir(wt + "/_mut"))
env = dict(os.environ, PYTHONPATH=wt)
def sh(cmd, cwd=None, env=None, timeout=1800):
    p = subprocess.run(cmd, shell=True, cwd=cwd, env=env, capture_output=True, text=True, timeout=timeout)
    return p.returncode, (p.stdout + p.stderr)
for k in ks:
    d = "%s/_mut/%s" % (wt, k)
    patch = d + "/patch.diff"
    rec = {"property": pid, "source": "sub-agent given only the property text and a scratch worktree"}
    sh("git checkout -- .", cwd=wt)
    rc, out = sh("git apply %s" % patch, cwd=wt)
    if rc: print(pid, k, "patch does not apply", out); continue
    rc, out = sh("/venv/bin/python -m pytest -q -p no:cacheprovider -x 2>&1 | tail -3", cwd=wt, env=env)
    m = re.search(r"(\d+) passed", out); rec["suite_with_patch"] = out.strip().splitlines()[-1]
    suite_ok = bool(m) and int(m.group(1)) == 977 and "failed" not in out
    rc1, out1 = sh("/venv/bin/python %s/demo.py" % d, cwd="/tmp", env=env)
    sh("git checkout -- .", cwd=wt)
    rc0, out0 = sh("/venv/bin/python %s/demo.py" % d, cwd="/tmp", env=env)
    rec["demo_with_patch_exit"] = rc1; rec["demo_without_patch_exit"] = rc0
    rec["demo_with_patch_tail"] = out1.strip()[-400:]
    ok = suite_ok and rc1 != 0 and rc0 == 0
    print(pid, k, "confirmed" if ok else "NOT CONFIRMED", rec["suite_with_patch"], rc1, rc0)
    if not ok: continue
    dst = "/verif/seeded/%s-%s" % (pid, k)
    os.makedirs(dst, exist_ok=True)
    shutil.copy(patch, dst + "/patch.diff"); shutil.copy(d + "/demo.py", dst + "/demo.py")
    notes = open(d + "/notes.txt").read() if os.path.exists(d + "/notes.txt") else ""
    rec["needs_to_manifest"] = notes.strip()
    # run my check with the change applied: on /repo itself, or (CONFIRM_WT=1, used while other jobs read /repo) on the scratch
    # worktree through UFL_VERIF_REPO
    if os.environ.get("CONFIRM_WT"):
        # a FRESH worktree of /repo's current HEAD (the agent's worktree may predate later fix: commits)
        wt2 = "/tmp/wt_confirm_%d" % os.getpid()
        sh("git worktree add --detach %s HEAD" % wt2, cwd="/repo")
        rca, outa = sh("git apply %s/patch.diff" % dst, cwd=wt2)
        if rca:
            print("  patch does not apply to /repo's HEAD (a fix: commit touched the same lines); not kept", outa[:200])
            sh("git worktree remove --force %s" % wt2, cwd="/repo"); shutil.rmtree(dst); continue
        sh("cp evidence/%s.json /tmp/ev_keep_%s.json" % (pid, pid), cwd="/verif")
        try:
            rcc, outc = sh("./check %s" % pid, cwd="/verif", timeout=3000, env=dict(os.environ, UFL_VERIF_REPO=wt2))
        finally:
            sh("git worktree remove --force %s" % wt2, cwd="/repo")
            sh("git checkout -- lean/UflVerif/Gen", cwd="/verif")
            sh("mv /tmp/ev_keep_%s.json evidence/%s.json" % (pid, pid), cwd="/verif")
        rec["check_quick_exit"] = rcc
        rec["check_output_tail"] = "\n".join(outc.strip().splitlines()[-6:])
        rec["detected"] = (rcc == 1 and "VIOLATION property=%s" % pid in outc)
        print("  check exit", rcc, "detected" if rec["detected"] else "MISSED")
        rec["what_i_ran"] = ["git apply patch.diff (scratch worktree); pytest (977 passed); demo.py with/without patch",
                             "UFL_VERIF_REPO=<scratch worktree with the patch> ./check %s   (equivalent to applying it to /repo; /repo was in use by other jobs)" % pid]
        json.dump(rec, open(dst + "/meta.json", "w"), indent=1)
        continue
    rcg, _ = sh("git diff --quiet", cwd="/repo")
    if rcg: print("  /repo dirty; skipping check run"); 
    else:
        rca, outa = sh("git apply %s/patch.diff" % dst, cwd="/repo")
        if rca:
            print("  patch does not apply to /repo (a fix: commit touched the same lines); not kept"); shutil.rmtree(dst); continue
        try:
            rcc, outc = sh("./check %s" % pid, cwd="/verif", timeout=3000)
        finally:
            sh("git checkout -- .", cwd="/repo")
            sh("git checkout -- lean/UflVerif/Gen", cwd="/verif")     # data regenerated from the mutated tree must not stay behind
        rec["check_quick_exit"] = rcc
        rec["check_output_tail"] = "\n".join(outc.strip().splitlines()[-6:])
        rec["detected"] = (rcc == 1 and "VIOLATION property=%s" % pid in outc)
        print("  check exit", rcc, "detected" if rec["detected"] else "MISSED")
    rec["what_i_ran"] = ["git apply patch.diff (scratch worktree); pytest (977 passed); demo.py with/without patch",
                         "git -C /repo apply patch.diff; ./check %s; git -C /repo checkout -- ." % pid]
    json.dump(rec, open(dst + "/meta.json", "w"), indent=1)
