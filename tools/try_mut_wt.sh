#!/bin/bash
# usage: tools/try_mut_wt.sh <abs patch.diff> <PID> [tier] — like try_mut.sh but WITHOUT touching /repo: the change is applied in a
# scratch worktree and the check is pointed at it through UFL_VERIF_REPO (used while other jobs are reading /repo).
set -u
patch=$1; pid=$2; tier=${3:-quick}
wt=/tmp/wt_mut_$$
git -C /repo worktree add --detach "$wt" HEAD >/dev/null 2>&1 || exit 2
( cd "$wt" && git apply "$patch" ) || { echo "patch does not apply"; git -C /repo worktree remove --force "$wt"; exit 2; }
cd /verif && cp evidence/$pid.json /tmp/ev_$pid.$$ 2>/dev/null
UFL_VERIF_REPO="$wt" ./check "$pid" --tier "$tier"; rc=$?
git -C /repo worktree remove --force "$wt"
git -C /verif checkout -- lean/UflVerif/Gen
[ -f /tmp/ev_$pid.$$ ] && mv /tmp/ev_$pid.$$ evidence/$pid.json
echo "[try_mut_wt] $patch -> exit $rc"
exit $rc
