import re,sys,glob
res={}
for f in glob.glob('/verif/lean/UflVerif/**/*.lean',recursive=True):
    stack=[];sec=[]
    incomment=0
    for line in open(f):
        s=line.rstrip('\n')
        if incomment:
            if '-/' in s: incomment=0
            continue
        if s.lstrip().startswith('/-') and '-/' not in s:
            incomment=1; continue
        m=re.match(r'^namespace\s+(\S+)',s)
        if m: stack.append(('ns',m.group(1)));continue
        if re.match(r'^mutual\b',s): stack.append(('mut',''));continue
        m=re.match(r'^section\s*(\S*)',s)
        if m: stack.append(('sec',m.group(1)));continue
        m=re.match(r'^end\s*(\S*)',s)
        if m and stack:
            stack.pop();continue
        m=re.match(r'^(?:@\[[^\]]*\]\s*)?(private\s+)?(?:noncomputable\s+)?(?:protected\s+)?(def|theorem|abbrev|structure|inductive|lemma|instance)\s+([A-Za-z0-9_.\']+)',s)
        if m and not m.group(1) and m.group(2)!='instance':
            ns='.'.join(x[1] for x in stack if x[0]=='ns')
            full=(ns+'.' if ns else '')+m.group(3)
            res.setdefault(full,[]).append(f.replace('/verif/lean/UflVerif/',''))
for k,v in sorted(res.items()):
    if len(set(v))>1: print(k,sorted(set(v)))
