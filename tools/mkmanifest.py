#!/usr/bin/env python3
"""Regenerate MANIFEST.json from the table below (keeps it valid and in one place)."""
import json, os
ROOT = os.path.dirname(os.path.dirname(os.path.abspath(__file__)))
props = [json.loads(l) for l in open(ROOT + "/properties.jsonl")]
CLAIMED = {
 "C21": dict(
   technique="Lean 4 proof by mutual functional induction over the evaluator (56 cases) of the substitution lemma for a hand model of Replacer; identity and rejection theorems by structural induction; model tied by exact-tree correspondence with replace() plus a value oracle through the denotational eval",
   text="substE/replaceE (Model/Replace.lean) model Replacer: lookup-or-reuse at every node, rebuild of touched nodes through the modelled constructors, refusal of CoefficientDerivative, the shape check. C21_substitution (all well-formed expressions of any size, any mapping of terminals to images of equal shape, any valuation/side/index environment/component): the substituted expression evaluates to e under the valuation in which each mapped terminal takes its image's value, through restrictions (image read on the terminal's side), variables, conditions and index notation; C21_shape_fi (shape and free indices preserved); C21_identity (no mapped terminal => the very same tree is returned); C21_rejects_shape; C21_rejects_unapplied_derivative. replaceE is compared tree-for-tree with replace() on generated expressions x mappings to zeros/literals/leaves/generated images, and the value statement is checked on the implementation's result through eval with substituted valuations; shape-changing mappings must be refused.",
   note="Trusted: Lean kernel; harness/props/c21.py, Drivers/Expr.lean. The theorem is about plain substitution; that the constructor rebuild at touched nodes keeps values is C05's subject (tied here by the correspondence and the value oracle). Mapped terminals under grad are excluded from the theorem (the jet of an image is outside the valuation) and covered by the oracle on the implementation only; expand_derivatives before replace is C02's subject; ExternalOperator/Interpolate/BaseForm keys are outside the model.",
   design="5 C21"),
 "C13": dict(
   technique="Lean 4: generic congruence/equivalence theorems lifting terminal consistency to all expressions (mutual structural induction) + kernel `decide` over a per-class, per-field observation table regenerated from live objects; oracle on generated expression pairs",
   text="Generic theorems for expressions of any size and any terminal observers: == implies equal (Merkle) hash and identical repr (C13_eq_implies_hash_repr), == is an equivalence relation (C13_equivalence), the operand sharing performed by expr_equals changes no observer (C13_compare_is_pure). Their hypothesis (terminal ==/hash/repr consistent) is discharged by the regenerated table Gen/EqFields.lean: for 27 classes (terminals, Variable, Mesh, FunctionSpace, operators, Integral, Form) and each constructor field, two live objects differing in exactly that field and an equal copy; C13_fields_eq_sees_all (what hash/repr/signature/shape see, == sees), C13_fields_repr_faithful (!= objects have different repr; changed objects survive pickle and eval(repr)), C13_fields_copies. An oracle checks the same statements plus symmetry, transitivity, purity of comparison and both round trips on generated expression pools with deep copies and on forms. The Constant.__eq__ defect found by the table was repaired by a fix: commit.",
   note="Trusted: Lean kernel; harness/props/c13.py (object construction and observation). The table samples two values per field; pickle and eval(repr) are observed, not modelled; utils.FiniteElement stands for third-party element classes.",
   design="5 C13"),
 "C05": dict(
   technique="Lean 4 proofs (case analysis + functional/fuel induction, Mathlib field with exact-rational literal folding) that each modelled constructor builds the requested operation; hand model tied by exact-tree correspondence on generated operand tuples; value oracle through the denotational eval",
   text="Model/Construct.lean transcribes __new__/__init__ of Sum, Product, Division, Power, Abs, Conj, Real, Imag, Indexed with every _simplify_indexed hook, IndexSum, ComponentTensor, ListTensor (both collapse rules), Conditional and the conditions. Proved for every operand, valuation, index environment and component, over any field of characteristic 0: C05_mkSum, C05_mkProduct, C05_mkDivision, C05_mkIndexSum (incl. pushing the sum into a factor), C05_mkIndexed_partial (zero folding, distribution over sums, indexing under index sums without capture, list-tensor row selection; the as_tensor(C[kk],jj)[is] shortcut is excluded), C05_mkComponentTensor, C05_mkConditional, C05_mkListTensor_partial, plus closure of well-formedness (WF) and the base lemma eval_congr (a value depends on the index environment only through the free indices). The model is compared tree-for-tree with the live constructors on ~3-4k generated operand tuples per run (zeros with free indices, both literal kinds, re-used Index objects, collapse near-misses, malformed operands), and the value/shape/free indices of every built expression and of the public operators T[key] and a*b are checked against the operand values. Four genuine defects were found and repaired by fix: commits (Abs self-reference, ListTensor collapse ignoring the binder, IndexSum index capture; see known_findings.json).",
   note="Trusted: Lean kernel; harness (gen.py, uflio.py, props/c05.py), Drivers/Expr.lean; Python float arithmetic in literal folding modelled as exact rationals; object identity in the ListTensor rules modelled by structural equality. Not modelled (counted as unsupported and skipped, or oracle-only): complex literals, math-function literal folding, non-integer literal powers, the fresh-index branches of the public operators (_mult, _getitem, _div, as_tensor) which are covered by the value oracle only, compound tensor-algebra constructors (C06).",
   design="5 C05"),
 "C29": dict(
   technique="Lean 4 proof (mutual structural induction + lexicographic-composition lemma over 'consistent triples') that the model of cmp_expr is a total preorder; typecode table regenerated; correspondence of cmp_expr on generated pairs",
   text="Expr.cmp models cmp_expr (typecode, arity, operands last-to-first, the five terminal comparators incl. repr comparison). Theorems for all expressions of any size: reflexive (C29_refl, which is what makes the implementation's identity shortcuts and equal-pairs memo sound), every triple consistently ranked (C29_consistent), hence antisymmetric, transitive, ties are a congruence, and the two-operand canonical sort used by Sum/Product/Inner is independent of the operand order whenever the operands do not tie (C29_sort2_order_independent). Typecode injectivity is re-checked by decide over the regenerated table. cmp_expr is compared with the model on thousands of ordered pairs per run (one-edit variants, shared sub-objects, equal-but-distinct rebuilds, different-rank indexing); the oracle checks antisymmetry/transitivity and a+b==b+a, a*b==b*a, inner(a,b)==conj(inner(b,a)) on the implementation. The intransitivity found on the pinned tree was repaired by a fix: commit.",
   note="Trusted: Lean kernel; typecodes.py; harness; repr strings of terminals are taken from the live objects; explicit stack/memo of cmp_expr modelled by recursion. Sane (class names as the serializer produces them) is a hypothesis of the order theorems. The constructors' use of the sort (Sum/Product/Inner building) is modelled in C05.",
   design="5 C29"),
 "C24": dict(
   technique="Lean 4 proof by functional (mutual) induction that the modelled evaluate protocol returns the denotational value; correspondence of the model with the real point evaluation on generated expressions",
   text="evalI transcribes every `evaluate` method (component threading, StackDict pushes/pops, derivative tuples through Grad/Indexed/ListTensor, conditions, zero-division); eval is the denotational semantics used by all other properties. C24_sound / C24_sound_open / C24_sound_grad (52-case mutual induction, no bound on expression size, any field K, any valuation): whenever evaluation returns a value it is the denotation. evalI is run against `expr(x, mapping, component)` on type-directed random expressions (index notation with re-used Index objects, component/list tensors, slices, conditionals incl. tensor-valued, math functions, compound algebra, derivatives of mapped callables) with exact rational data, and the implementation's answer is additionally compared with the denotation (property oracle). The TypeError on tensor-valued conditionals found this way was repaired by a fix: commit.",
   note="Trusted: Lean kernel; harness (gen.py, uflio.py, props/c24.py), Drivers/Expr.lean; float arithmetic and math library functions are compared to 1e-9 only; expand_derivatives runs before evaluate in the implementation (its own correctness is C03/C06). Domain: no free indices, component of the expression's rank, no restrictions; completeness (no spurious raise) is covered by the correspondence/oracle only, not by a theorem.",
   design="5 C24"),
 "C19": dict(
   technique="Lean 4 proof by mutual structural induction (traversals, map_expr_dag, DAGTraverser memoisation) on a hand model tied by correspondence on random DAGs; kernel `decide` over dispatch tables regenerated from the live classes",
   text="For every labelled tree (any size/sharing) and every handler: unique post traversal yields each distinct subexpression exactly once with operands before users (C19_post_exactly_once, C19_post_operands_first); unique pre traversal exactly once (C19_pre_exactly_once, worklist invariant + fuel sufficiency); cut-off variant (C19_cutoff_post); map_expr_dag = recursive application to the tree with and without cut-offs (C19_map_dag_eq_tree); DAGTraverser memoisation keyed on (node, kwargs) is sound for any shared cache (C19_dag_traverser_memo_sound). Dispatch: for all 26 MultiFunction/Transformer subclasses x 167 types and 15 DAGTraverser subclasses, the table the class computed is the nearest-ancestor table (decide over Gen/Dispatch.lean, regenerated each run). The models are run against the real traversal/map/DAGTraverser code on random DAGs with shared subexpressions at different depths.",
   note="Trusted: Lean kernel; translator dispatch.py; abstraction of expressions to labelled trees with structural equality for ==/hash (C13's subject); iterative loops modelled by structural recursion / fuelled worklist, tied by correspondence only.",
   design="5 C19"),
 "C20": dict(
   technique="Lean 4 proof by invariant induction over arbitrary operation histories of a state-machine model of the handler-table cache; correspondence on random histories run in fresh processes",
   text="State machine (register type / instantiate class / apply) for MultiFunction and Transformer with the per-class table cache. Invariant: every cached table is the correct table for the types present when it was built; proved preserved by every step, hence for histories of any length (C20_total: every apply dispatches to the nearest-ancestor handler; C20_history_independent; C20_cache_current). The executable model is compared with the real classes on random histories, each in a fresh forked process that really defines new Expr subclasses (4 kinds), 8 harness algorithm classes with inheritance, plus real passes and plain-function map_expr_dag on expressions containing new types. The stale-cache defect found on the pinned tree was repaired by a fix: commit; C20_old_cache_counterexample keeps the failing 3-step history.",
   note="Trusted: Lean kernel; harness/props/c20.py; Python attribute lookup modelled as name-set membership. Assumes instances are created after the types they are applied to (an old instance keeps its own table).",
   design="5 C20"),
 "C25": dict(
   technique="Lean 4 proof (induction over tuple length + kernel `decide` on the regenerated space table) of a hand model of sobolevspace.py; exhaustive model-vs-implementation correspondence on a finite domain",
   text="Theorems for directional spaces of every length: < is exactly the strict part of componentwise inclusion w.r.t. the declared lattice (C25_lt_iff_proper_subspace, C25_table_is_declared_lattice), irreflexive, asymmetric, transitive within a spatial dimension, > / <= / >= / membership derived consistently, == is two-sided inclusion, and where comparisons raise. The table of predefined spaces is regenerated each run (translator) and the executable model is compared with the live classes on every ordered pair of 12 predefined + all directional spaces with orders {0,1,2,3,inf} of length <=2 (quick) / <=3 (thorough): 6 outcomes per pair. The genuine defects this found on the pinned tree were repaired by a fix: commit.",
   note="Trusted: Lean kernel; translator/correspondence in harness/props/c25.py; meaning of 'subspace' for symbolic spaces = declared cover relations + componentwise rule (Spec section of Props/C25.lean). Directional orders restricted to those __getitem__ maps to a space; pairs (directional, HDivDiv/HEin/HCurlDiv) raise and are outside the relation; transitivity within one spatial dimension.",
   design="5 C25"),
 "C26": dict(
   technique="Lean 4 proof by kernel `decide` over cell tables regenerated from ufl/cell.py on every run (translator tie); exhaustive finite domain",
   text="Proof over the complete finite domain: the translator re-reads _sub_entity_celltypes and queries the live Cell/TensorProductCell API (every dimension, every named accessor, the full truth table of < and == over 76 cells) into Gen/Cells.lean; 11 theorems (Euler relation, sub-entity dimensions and recursive consistency, ridge-in-two-facets, facets/ridges/peaks, product-polytope f-vectors, strict total order) are re-checked by the Lean kernel against that data each run. A table change that keeps the property leaves them provable; one that breaks it fails a named theorem and the Python oracle names the cell.",
   note="Trusted: Lean kernel; translator harness/translate/cells.py; tensor products limited to <=3 named factors, tdim<=3, and to the dimensions the code defines (others raise NotImplementedError).",
   design="5 C26"),
}
NA_MAP = {}
NA_REASON = "not yet covered by a compiled theorem + tie in this revision (work in progress, see DESIGN.md section 7); not claimed at a weaker technique"
checks, na = [], []
for p in props:
    pid = p["id"]
    if pid in CLAIMED:
        c = CLAIMED[pid]
        checks.append({
          "property_id": pid,
          "quick_cmd": "./check %s --tier quick" % pid,
          "thorough_cmd": "./check %s --tier thorough" % pid,
          "evidence_file": "evidence/%s.json" % pid,
          "replay_cmd_template": "./check %s --replay {path}" % pid,
          "engine": "lean4-ufl-model",
          "level_claimed": {"category": "proof", "text": c["text"], "design_ref": "DESIGN.md section " + c["design"]},
          "level_note": c["note"],
          "technique": c["technique"]})
    else:
        na.append({"property_id": pid, "reason": NA_MAP.get(pid, NA_REASON)})
m = {
 "version": 1,
 "setup_cmd": "cd lean && lake build",
 "hooks": {"guard": "UFL_VERIF", "enable": "UFL_VERIF=1 in the environment (set by harness/common.py); no source hook exists so far, the harness observes ufl from outside",
           "baseline_off_cmd": "cd /repo && env -u UFL_VERIF /venv/bin/python -m pytest -ra -q -p no:cacheprovider --timeout=900 --continue-on-collection-errors",
           "source_commits": [], "add_only": True},
 "engines": [{"name": "lean4-ufl-model", "path": "lean/", "serves_properties": sorted(CLAIMED),
              "kind_free_text": "Lean 4.33 library: Model/ (hand-written executable model, Mathlib-free), Gen/ (data regenerated from /repo by harness/translate on every run), Props/ (property theorems), driven by ./check via harness/"}],
 "checks": checks,
 "not_applicable": na,
 "notes": "Every check: regenerate Gen/*.lean from /repo's working tree -> lake build (kernel re-checks theorems) -> axiom audit -> correspondence run (model vs implementation) -> failing-input search if a tie broke. known_findings.json lists genuine defects recorded rather than repaired.",
}
json.dump(m, open(ROOT + "/MANIFEST.json", "w"), indent=1)
print("claimed", len(checks), "not claimed", len(na))
