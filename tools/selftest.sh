#!/bin/bash
# usage: tools/selftest.sh [seed]   — exercise /verif the way it is used: clone the committed tree to a
# scratch directory outside /verif, run MANIFEST.setup_cmd (a full `lake build` of the root, which is the
# only build that imports every Props module together), then every quick_cmd; remove the clone.
set -u
seed=${1:-1}
src=$(cd "$(dirname "$0")/.." && pwd)
dst=$(mktemp -d /root/verif_selftest.XXXXXX)
trap 'rm -rf "$dst"' EXIT
git clone -q "$src" "$dst/v" || exit 2
cd "$dst/v" || exit 2
export CARGO_NET_OFFLINE=true GOPROXY=off PIP_NO_INDEX=1 VERIF_SEED=$seed VERIF_TIER=quick
setup=$(python3 -c "import json;print(json.load(open('MANIFEST.json'))['setup_cmd'])")
if ! bash -c "$setup" > "$dst/setup.log" 2>&1; then
  grep -n "^error" "$dst/setup.log" | head; echo "[selftest] setup_cmd FAILED"; exit 1
fi
echo "[selftest] setup ok"
bad=0
while IFS=$'\t' read -r pid cmd; do
  bash -c "$cmd" > "$dst/$pid.log" 2>&1; rc=$?
  v=$(grep -c "^VIOLATION" "$dst/$pid.log")
  echo "[selftest] $pid rc=$rc violations=$v $(tail -1 "$dst/$pid.log")"
  [ $rc -ne 0 ] || [ "$v" -ne 0 ] && bad=1
  [ -s "evidence/$pid.json" ] || { echo "[selftest] $pid wrote no evidence"; bad=1; }
done < <(python3 -c "import json
for c in json.load(open('MANIFEST.json'))['checks']: print(c['property_id']+'\t'+c['quick_cmd'])")
# with /repo clean, regeneration must reproduce the committed Gen/*.lean byte for byte (setup_cmd builds those)
if git -C /repo diff --quiet && [ -n "$(git status --short lean/UflVerif/Gen)" ]; then
  echo "[selftest] committed Gen files differ from what the clean /repo generates:"; git status --short lean/UflVerif/Gen; bad=1
fi
exit $bad
