#!/bin/bash
# usage: tools/try_mut.sh <patch.diff> <PID> [tier]   — apply a seeded change to /repo, run the check, undo.
set -u
patch=$1; pid=$2; tier=${3:-quick}
cd /repo || exit 2
if ! git diff --quiet; then echo "/repo is dirty, refusing"; exit 2; fi
git apply "$patch" || { echo "patch does not apply"; exit 2; }
cd /verif && ./check "$pid" --tier "$tier"; rc=$?
git -C /repo checkout -- . 
# the check regenerated Gen/*.lean from the mutated tree: restore the committed (clean-tree) data so that
# nothing stale is left behind for `lake build` of the root or for a later commit
git -C /verif checkout -- lean/UflVerif/Gen
echo "[try_mut] $patch -> exit $rc"
exit $rc
