#!/usr/bin/env python3
"""Write the prompt given to a mutation sub-agent: property text + its scratch worktree only."""
import json, sys
props = {json.loads(l)['id']: json.loads(l) for l in open('/verif/properties.jsonl')}
T = """You are helping test a verification tool for the Python library FEniCS/ufl (UFL: a DSL for finite element variational forms). You have your own scratch git worktree of the library at {wt} (a detached checkout of the pinned commit). Work ONLY inside {wt} (and /tmp/agent_{pid}_scratch if you need scratch space). Do NOT read, list or touch /verif or /repo at all.

To run Python against your worktree use:  cd {wt} && PYTHONPATH={wt} /venv/bin/python ...
To run the existing test suite (977 tests, ~10 s):  cd {wt} && PYTHONPATH={wt} /venv/bin/python -m pytest -q -p no:cacheprovider
There is no network.

Here is a semantic property that the library is supposed to satisfy:

  id: {pid}
  title: {title}
  statement: {statement}
  quantified over: {quant}
  relevant files: {files}

YOUR TASK: produce {n} DIFFERENT small, realistic changes ("mutations") to the library's source under {wt}/ufl, each of which BREAKS this property while the library still imports and the existing test suite (unedited, all 977 tests) still passes. Think of the kind of bug a maintainer could plausibly introduce in a refactor or 'optimisation': an off-by-one, a dropped guard, a wrong operand order, a swapped branch, a cache keyed too coarsely, a condition that is slightly too permissive. Prefer changes that need something SPECIFIC to manifest (an unusual input shape, a multi-step sequence of operations, a particular combination of operands, reused index objects, two cooperating sites that each look fine alone) rather than ones that ordinary use would expose at once. Each mutation must be a genuinely different mechanism in a different function or branch, not variations of one edit.

For each mutation k = 1..{n} deliver, under {wt}/_mut/k/:
  - patch.diff : a unified diff produced with `git -C {wt} diff -- ufl` (relative to the pinned commit, touching only files under ufl/), applying cleanly with `git apply` on a clean checkout;
  - demo.py : a small standalone program (run as `PYTHONPATH=<tree> /venv/bin/python demo.py`) that exits 0 and prints PASS on the UNCHANGED tree and exits non-zero (printing what went wrong) on the tree with the patch applied. The demo must test the PROPERTY (e.g. compare values/meaning as the statement says), not merely diff printed structure against a stored string;
  - notes.txt : 3-6 lines: what was changed, why it breaks the property, what specific input/sequence it needs to manifest.

Procedure for each mutation: edit files in {wt}; run the full test suite and make sure all 977 pass; run your demo against the mutated tree (must fail) ; save the diff; then `git -C {wt} checkout -- ufl` to restore and run the demo again against the clean tree (must pass). Only keep mutations for which you have actually observed all three facts (suite passes with mutation, demo fails with mutation, demo passes without). Leave the worktree clean (no modified tracked files) at the end; the _mut directory is untracked and stays.

Important: the unchanged library may already have genuine defects with respect to this property; do not rely on those — your demo must PASS on the unchanged tree. Avoid inputs on which the unchanged tree misbehaves.

When done, reply with a short list: for each mutation, one line saying which file/function it changes and what it needs to manifest.
"""
for pid in sys.argv[1:]:
    p = props[pid]
    sys.stdout.write(T.format(wt=f'/tmp/wt_{pid}', pid=pid, title=p['title'], statement=p['statement'],
        quant=p['quantifier']['text'], files=', '.join(f.replace('/repo/','') for f in p['anchors']['files']), n=3))
